"""C21 - Histograms count every observation in exactly one bucket.

spec/Buckets.tla: codegen's range construction from the declared boundaries,
datum.MakeBuckets, Buckets.Observe (first bucket with v <= Max; Count++; Sum += v)
and GetBucketsCumByMax, against the statement: exported bounds = declared bounds
plus +Inf, each observation in the first declared bound >= value (NaN and values
above every bound in +Inf), bucket counts sum to Count, Sum is the IEEE sum.  TLC
explores every sorted declaration over {-2,-1.5,-1,0,0.5,1,2} and every sequence of
values just below / at / just above each boundary, far below, -Inf, +Inf, NaN, and
prints every maximal behaviour; the Go harness (internal/verif/c21) runs each one
through the real compiler, VM and datum, one log line per observation.
Deviations: DEV_FirstBoundDroppedWhenNotPositive (codegen), DEV_NaNInNoBucket
(Observe).
"""
import json

import covutil
import vlib

LEVEL = "model_checking"
META = {
    "text": "TLC exhausts spec/Buckets.tla (codegen range construction, MakeBuckets, Observe, cumulative export) for every sorted "
            "declaration of 2-4 boundaries from {-2,-1.5,-1,0,0.5,1,2} and every sequence of 3 (thorough 4) observations drawn from the "
            "values half a unit below / at / above each boundary, far below, -Inf, +Inf and NaN; every behaviour is replayed through "
            "the real compiler and VM (`histogram h by k buckets ...; h[$1] = float($2)`), comparing bucket bounds, per-bucket "
            "counts, Count and Sum after every line, then GetBucketsCumByMax, JSON and a sample of Prometheus expositions; boundaries in "
            "half units (negative non-whole bounds), whole-valued observations also through an int-typed program, and a reload with an "
            "edited boundary list between observations (everything counted so far survives it).",
    "note": "Finite values are multiples of 1/2 (exact in float64); rounding of sums of arbitrary floats is out of the model.",
    "technique": "TLA+ spec + TLC exhaustive behaviours replayed through real compiler/VM/datum/exporter (direction A)",
    "design_ref": "DESIGN.md 5/C21",
}
DEVS = ["DEV_FirstBoundDroppedWhenNotPositive", "DEV_NaNInNoBucket"]
INVS = ["TypeOK", "BoundsExported", "RightBucket", "CountsSum", "SumOK", "CumOK", "Emit"]
# TLC's cfg syntax has no negative numbers: the boundary candidates live in a generated MC module
MC = {"MCBuckets.tla": "---- MODULE MCBuckets ----\nEXTENDS Buckets\nMCBounds == {-4, -3, -2, 0, 1, 2, 4}\n====\n"}


def cfg(mindecl, maxdecl, maxobs, devs=(), emit=True, invs=INVS, props=True, reload=False):
    c = {"MinDecl": mindecl, "MaxDecl": maxdecl, "MaxObs": maxobs, "EmitCases": emit, "WithReload": reload}
    for d in DEVS:
        c[d] = d in devs
    t = vlib.cfg_text(spec="Spec", constants=c, invariants=list(invs), properties=["OneBucketPerObservation"] if props else [])
    return t.replace("CONSTANTS\n", "CONSTANTS\n  BoundSet <- MCBounds\n")


def key(c):
    return (tuple(c["decl"]), tuple(c["obs"]), json.dumps(c.get("reload")))


def nontrivial(c):
    # an observation exactly on a boundary, a special value, or below a non-positive first boundary
    bs = set(c["decl"])
    return any(o in bs or o in (-1000, 1000, 9999) or (c["decl"][0] <= 0 and o <= c["decl"][0]) for o in c["obs"])


def stage(ctx, binary, name, mindecl, maxdecl, maxobs, devs, seen, explained, reload=False):
    r = vlib.tlc(ctx, "MCBuckets", cfg(mindecl, maxdecl, maxobs, reload=reload), label="Buckets-" + name, timeout=2400, extra_files=MC)
    cases = r.cases
    if not cases:
        raise vlib.InfraError("TLC emitted no behaviours (%s)" % name)
    recs = vlib.run_harness(ctx, binary, cases=cases, timeout=2400)
    summ = [x for x in recs if x.get("summary")]
    if not summ or summ[0]["cases"] != len(cases):
        raise vlib.InfraError("harness did not process all cases (%s)" % name)
    ctx.cov["traces_validated_against_impl"] += len(cases)
    ctx.cov["evaluations"] += sum(len(c["obs"]) for c in cases)
    ctx.cov["expositions_checked"] = ctx.cov.get("expositions_checked", 0) + summ[0]["expositions"]
    seen["n"] += sum(1 for c in cases if nontrivial(c))
    for c in cases[len(cases) // 3: len(cases) // 3 + 1]:
        ctx.sample({k: c[k] for k in ("decl", "obs", "maxes", "steps")})
    bad = [x for x in recs if x.get("mismatch")]
    if not bad:
        return
    # every case uses a fresh label of a freshly compiled program: re-execute the failing ones alone
    again = vlib.run_harness(ctx, binary, cases=[cases[x["k"]] for x in bad], timeout=2400)
    bad2 = []
    for y in again:
        if y.get("mismatch"):
            bad2.append((cases[bad[y["k"]]["k"]], y))
    if not bad2:
        return
    model_dev = {}
    if devs:
        # the same behaviours in the model with exactly the open deviations switched on
        want = {key(c) for c, _ in bad2}

        def sink(c):
            if key(c) in want:
                model_dev[key(c)] = c
        vlib.tlc(ctx, "MCBuckets", cfg(mindecl, maxdecl, maxobs, devs=devs, invs=["Emit"], props=False, reload=reload), label="Buckets-%s-devs" % name,
                 timeout=2400, case_sink=sink, extra_files=MC)
    for c, y in bad2:
        d = model_dev.get(key(c))
        if d is not None and y["got"]["maxes"] == d["maxes"] and y["got"]["steps"] == d["steps"]:
            which = []
            if d["maxes"] != c["maxes"]:
                which.append("DEV_FirstBoundDroppedWhenNotPositive")
            if 9999 in c["obs"]:
                which.append("DEV_NaNInNoBucket")
            for w in which or list(devs):
                if w in devs:
                    explained.setdefault(w, []).append((c, y))
            continue
        extra = ""
        if d is not None:
            extra = "; the model with the open deviations %s predicts bounds %s and steps %s, the real code gives bounds %s and steps %s" % (
                list(devs), d["maxes"], json.dumps(d["steps"]), y["got"]["maxes"], json.dumps(y["got"]["steps"]))
        ctx.violation({"case": c, "got": y["got"], "why": y["why"], "model_with_open_deviations": d},
                      "histogram `buckets %s` observing %s (half units; 9999=NaN, +-1000=Inf): %s%s" % (c["decl"], c["obs"], y["why"], extra))


def run(ctx):
    binary = vlib.build(ctx, "c21")
    devs = vlib.open_devs(ctx.prop)
    # model: every open deviation alone refutes the property (smallest bounds)
    for d in devs:
        vlib.expect_dev_counterexample(ctx, "MCBuckets", cfg(2, 2, 2, devs=[d], emit=False, invs=INVS[:-1]), d, extra_files=MC)
    seen, explained = {"n": 0}, {}
    if ctx.thorough:
        stage(ctx, binary, "decl2-obs4", 2, 2, 4, devs, seen, explained)
        stage(ctx, binary, "decl3-4-obs3", 3, 4, 3, devs, seen, explained)
        r = vlib.tlc(ctx, "MCBuckets", cfg(2, 2, 2, emit=False, invs=INVS[:-1], reload=True), label="Buckets-coverage", coverage=True, extra_files=MC)
        if covutil.final_zero_cov(r.stdout):
            raise vlib.InfraError("actions never taken in Buckets.tla: %s" % covutil.final_zero_cov(r.stdout))
    else:
        stage(ctx, binary, "decl2-4-obs2", 2, 4, 2, devs, seen, explained)
    # a reload with an edited boundary list between the observations: everything counted so far survives it
    stage(ctx, binary, "reload-decl2-3-obs2" if ctx.thorough else "reload-decl2-obs2", 2, 3 if ctx.thorough else 2, 2, devs, seen, explained, reload=True)
    for d in devs:
        ex = explained.get(d)
        if not ex:
            continue
        f = vlib.open_finding(ctx.prop, d)
        # smallest example; for the NaN deviation prefer a declaration the other deviation does not touch
        c, y = min(ex, key=lambda e: (e[0]["decl"][0] <= 0 and d == "DEV_NaNInNoBucket", len(e[0]["decl"]), len(e[0]["obs"]), json.dumps(e[0]["obs"])))
        ctx.known_finding(d, "%s; %d replayed behaviours leave the corrected design exactly as this deviation predicts, e.g. "
                          "`buckets %s` observing %s: %s (recorded witness: %s)" % (
                              f["what"], len(ex), ", ".join(str(b) for b in c["decl"]), c["obs"], y["why"], json.dumps(f["witness"])))
    ctx.cov["distinct_nontrivial"] = seen["n"]
    ctx.cov["exhaustive"] = True
    ctx.cov["rule"] = ("every (declaration, observation sequence) behaviour of Buckets.tla within the bounds is replayed through the real "
                       "compiler and VM; non-trivial = contains an observation exactly on a boundary, an infinity or NaN, or one at or "
                       "below a non-positive first boundary")
    ctx.cov["constants"] = {"BoundSet": [-2, -1, 0, 1, 2, 4], "decl_len": "2-4", "MaxObs": "4 (decl 2), 3 (decl 3-4)" if ctx.thorough else 2,
                            "values": "each boundary -1/2, +0, +1/2; first boundary - 3; -Inf; +Inf; NaN"}
    ctx.assumptions += [
        "finite model values are multiples of 1/2 written as decimal text on the log line (float($2) parses them exactly); 9999/1000/-1000 stand for NaN/+Inf/-Inf",
        "one program per declaration, one fresh label per behaviour; the Prometheus exposition is checked for a seeded ~0.1% sample of behaviours (a full scrape each)",
        "declarations with fewer than two boundaries are rejected by the compiler and are outside the model",
    ]


def replay(ctx, path):
    binary = vlib.build(ctx, "c21")
    blob = json.load(open(path))["case"]
    c = blob["case"]
    bad = [r for r in vlib.run_harness(ctx, binary, cases=[c]) if r.get("mismatch")]
    if not bad:
        return
    devs = vlib.open_devs(ctx.prop)
    if devs:
        # what does the model with exactly the currently open deviations say about this behaviour?
        hit = []

        def sink(x):
            if key(x) == key(c):
                hit.append(x)
        vlib.tlc(ctx, "MCBuckets", cfg(len(c["decl"]), len(c["decl"]), len(c["obs"]), devs=devs, invs=["Emit"], props=False),
                 label="Buckets-replay-devs", case_sink=sink, extra_files=MC)
        if hit and bad[0]["got"]["maxes"] == hit[0]["maxes"] and bad[0]["got"]["steps"] == hit[0]["steps"]:
            vlib.log("replayed behaviour is exactly what the open deviations %s predict: known finding, no violation" % devs)
            return
    ctx.violation(blob, bad[0]["why"])
