"""C20 - Lines reach each program in order, exactly once, across reloads.

spec/Reload.tla models the fan-out goroutine (RLock; send to every handle; RUnlock),
CompileAndRun's swap (Lock; close(old); new chan; handles[p]=new; go Run; Unlock),
UnloadProgram and the VM Run loops at the grain of the verifhook points.  TLC
checks ExactlyOneVersion / NeverNeither / OnlyLoaded / WritesInArrivalOrder /
LastWriteIsLastLine / NoOverlap and the lock invariants exhaustively.

Direction A (blocking gates): TLC prints one path per transition of the state
graph (1 program; thorough also every complete behaviour of a smaller bound);
internal/verif/c20 drives a real runtime.Runtime through every path, releasing
one parked goroutine per action, and compares the emitted events, the gauge and
the per-line processing log with the model after every action.
Direction B: the hook traces of these runs, of seeded 2-program runs with loads
and unloads, and of the repository's own runtime / mtail tests (VERIF_TRACE) are
validated by spec/TraceReload.tla.

Known deviation DEV_OldVmNotAwaited: see known_findings.d/C20.json.
"""
import json
import os
import subprocess

import vlib

LEVEL = "model_checking"
META = {
    "text": "TLC exhausts spec/Reload.tla (fan-out under handleMu.RLock, CompileAndRun/UnloadProgram under Lock, VM Run "
            "loops, one action per code segment between hook points) for 1-2 programs, 2-3 versions, 3-4 lines, loads, "
            "reloads and unloads at every position; every transition of the 1-program state graph is replayed with blocking "
            "gates into a real runtime.Runtime (events, gauge, per-line processing log compared after every action), and "
            "hook traces of gated runs, seeded 2-program runs and the repository's tests are validated by TraceReload.tla.",
    "note": "Trusts TLC, Go's RWMutex/channel semantics as modelled (eager hand-over), and the verifhook points; the gate "
            "grain cannot separate steps between two hook points (e.g. Lock() from close(old)).",
    "technique": "TLA+ spec + TLC exhaustive; behaviours replayed into the real runtime with scheduler gates (A); "
                 "recorded traces validated by a TLA+ trace spec (B)",
    "design_ref": "DESIGN.md 5/C20, Appendix A.4b, A.6",
}

DEV = "DEV_OldVmNotAwaited"            # CompileAndRun
DEVU = "DEV_UnloadedVmNotAwaited"      # UnloadProgram
DEVR = "DEV_RegisteredBeforeOldVmStops"  # CompileAndRun: Store.Add before the lock
DEVS = (DEV, DEVU, DEVR)
PROP_INVS = ["TypeOK", "LockOK", "NoSendToClosed", "OldVersionsClosed", "PerVmInOrder",
             "ExactlyOneVersion", "NeverNeither", "OnlyLoaded",
             "WritesInArrivalOrder", "LastWriteIsLastLine", "NoWriteLost", "NoOverlap"]
IMPL_INVS = PROP_INVS[:8]
HOOKS = {"rt.line.recv", "rt.line.sent", "vm.line.start", "vm.line.end", "vm.exit",
         "rt.load.registered", "rt.load.closed_old", "rt.load.swapped", "rt.unload", "h.end"}


def S(xs):
    return "={" + ", ".join(str(x) for x in sorted(xs)) + "}"


def devmap(devs):
    return {d: (d in devs) for d in DEVS}


def model_cfg(nlines, progs, init, loadable, maxver, maxloads, unloadable, devs, emit="none", invs=PROP_INVS,
              view="View"):
    consts = {"NLines": nlines, "Progs": S(progs), "InitLoaded": S(init), "Loadable": S(loadable),
              "MaxVer": maxver, "MaxLoads": maxloads, "Unloadable": S(unloadable),
              "EofAnyTime": False, "KeepHistory": True, "EmitCases": emit}
    consts.update(devmap(devs))
    return vlib.cfg_text(
        spec="Spec",
        constants=consts,
        invariants=list(invs) + ["Emit"], view=view, check_deadlock=True)


# ---------------------------------------------------------------------------
# direction A
# ---------------------------------------------------------------------------
def emit_cases(ctx, label, nlines, init, loadable, maxver, maxloads, unloadable, devs, mode="prefix"):
    cfg = model_cfg(nlines, [1], init, loadable, maxver, maxloads, unloadable, devs, emit=mode, invs=IMPL_INVS,
                    view="View2" if mode == "prefix" else None)
    r = vlib.tlc(ctx, "Reload", cfg, workers=1 if mode == "prefix" else None, label=label, timeout=1200)
    cases = r.cases
    for k, c in enumerate(cases):
        c["id"] = k + 1
        c["label"] = label
        c["nlines"] = nlines
        c["nprogs"] = 1
        c["init"] = sorted(init)
    return cases


def harness_cases(cases):
    out = []
    for c in cases:
        d = {k: c[k] for k in ("id", "label", "nlines", "nprogs", "init", "procd", "writes")}
        d["steps"] = [{k: s[k] for k in ("a", "p", "v", "exp", "g")} for s in c["steps"]]
        if "deadline_ms" in c:
            d["deadline_ms"] = c["deadline_ms"]
        out.append(d)
    return out


class Crash(Exception):
    def __init__(self, case_id, text):
        Exception.__init__(self, text)
        self.case_id, self.text = case_id, text


def _run_bin(ctx, binary, todo):
    """Like vlib.run_harness, but a crash of the process inside mtail code (a Go panic with an mtail frame)
    while a schedule is being followed is real-code behaviour, not an infrastructure failure."""
    d = ctx.sub("c20-in")
    inp = os.path.join(d, "cases.ndjson")
    with open(inp, "w") as f:
        for c in todo:
            f.write(json.dumps(c, separators=(",", ":")) + "\n")
    env = vlib.harness_env(ctx)
    env["VERIF_SEED"] = str(ctx.seed)
    try:
        with open(inp) as fin:
            r = subprocess.run([binary], stdin=fin, env=env, capture_output=True, text=True, timeout=1500, cwd=ctx.scratch)
    except subprocess.TimeoutExpired:
        raise vlib.InfraError("c20 harness timed out")
    recs = []
    for line in r.stdout.splitlines():
        if line.startswith("{"):
            try:
                recs.append(json.loads(line))
            except ValueError:
                pass
    if r.returncode != 0:
        done = {x["id"] for x in recs if "id" in x and "trace" in x}
        rest = [c for c in todo if c["id"] not in done]
        err = r.stderr[-6000:]
        if rest and "panic:" in err and "github.com/google/mtail/internal/" in err.replace("mtail/internal/verif", ""):
            return recs, Crash(rest[0]["id"], err[err.index("panic:"):][:1500])
        raise vlib.InfraError("c20 harness exited %d:\n%s\n%s" % (r.returncode, r.stdout[-1500:], err))
    return recs, None


def run_replay(ctx, binary, cases, crash_ok=False):
    """Replay cases; a harness process that had to abandon a stuck case is restarted for the rest.  A crash
    inside mtail is recorded as the result of that case (ok=False, kind 'crash')."""
    todo = harness_cases(cases)
    results = {}
    ncrash = 0
    while todo and ncrash < 3:      # a tree that crashes is not replayed to the end
        recs, crash = _run_bin(ctx, binary, todo)
        got = [r for r in recs if "id" in r and "trace" in r]
        for r in got:
            results[r["id"]] = r
        if crash:
            ncrash += 1
            results[crash.case_id] = {"id": crash.case_id, "ok": False, "trace": [], "writes": [], "procd": [],
                                      "mismatch": {"kind": "crash", "step": None, "why": crash.text, "got": None, "want": None}}
        elif not got:
            raise vlib.InfraError("c20 harness returned no result")
        done = set(results)
        todo = [c for c in todo if c["id"] not in done]
        if any(r.get("truncated") for r in recs):
            results["truncated"] = True
            break
        if todo and not crash and not any(r.get("abandon") for r in recs):
            raise vlib.InfraError("c20 harness stopped early without abandoning a case")
    return results


def short(c):
    return " ".join("%s%s" % (s["a"], ("(v%d)" % s["v"]) if s["v"] else "") for s in c["steps"])


def nontrivial_keys(cases):
    keys = set()
    for c in cases:
        for s in c["steps"]:
            f = s.get("from")
            if not f:
                continue
            live = sum(1 for per in f["vm"] for st in per if st in ("ready", "atstart", "atend"))
            if f["rl"] not in ("none", "done") or live > 1:
                keys.add(json.dumps([f, s["a"], s["p"], s["v"]], sort_keys=True))
    return keys


# ---------------------------------------------------------------------------
# direction B
# ---------------------------------------------------------------------------
def norm_event(e):
    return {"ev": e["ev"], "prog": int(e.get("prog") or 0), "vm": int(e.get("vm") or 0),
            "file": e.get("file") or "", "line": e.get("line") or "",
            "nprogs": int(e["nprogs"]) if e.get("nprogs") is not None else -1}


def segment_from_harness(trace, complete=True):
    evs = [norm_event(e) for e in trace if e["ev"] in HOOKS]
    if complete:
        evs.append(norm_event({"ev": "h.end"}))
    return evs


def segments_from_verif_trace(path):
    """VERIF_TRACE file of `go test`: one segment per process; program names -> 1..n, vm addresses ->
    one integer per rt.load.registered (pure renaming)."""
    per_pid = {}
    with open(path) as f:
        for line in f:
            try:
                e = json.loads(line)
            except ValueError:
                continue
            per_pid.setdefault(e.get("pid", 0), []).append(e)
    segs = []
    for pid, evs in sorted(per_pid.items()):
        evs.sort(key=lambda e: e["seq"])
        progs, vms, nvm, out = {}, {}, 0, []
        for e in evs:
            if e["ev"] not in HOOKS:
                continue
            d = dict(e)
            if "prog" in e:
                d["prog"] = progs.setdefault(e["prog"], len(progs) + 1)
            if "vm" in e:
                if e["ev"] == "rt.load.registered":
                    nvm += 1
                    vms[e["vm"]] = nvm
                d["vm"] = vms.get(e["vm"], 9999)
            out.append(norm_event(d))
        if out:
            segs.append(out)
    return segs


def seg_bounds(seg):
    nrecv = sum(1 for e in seg if e["ev"] == "rt.line.recv")
    nprog = max([e["prog"] for e in seg] + [1])
    regs = {}
    for e in seg:
        if e["ev"] == "rt.load.registered":
            regs[e["prog"]] = regs.get(e["prog"], 0) + 1
    return nrecv, nprog, max(list(regs.values()) + [1])


def validate_segments(ctx, segs, devs, strict, label, invariants=False):
    """Run TraceReload.tla over the segments; returns the set of rejected segment indices (0-based) and the
    TLC result."""
    if not segs:
        return set(), None
    lines, bounds, n = [], [], 0
    nl = npg = mv = 1
    for s in segs:
        first = n + 1
        for e in s:
            lines.append(json.dumps(e))
            n += 1
        bounds.append(json.dumps({"first": first, "last": n}))
        a, b, c = seg_bounds(s)
        nl, npg, mv = max(nl, a), max(npg, b), max(mv, c)
    progs = list(range(1, npg + 1))
    consts = {"NLines": nl, "Progs": S(progs), "InitLoaded": "={}", "Loadable": S(progs), "MaxVer": mv,
              "MaxLoads": 1000000, "Unloadable": S(progs), "EofAnyTime": True,
              "KeepHistory": False, "EmitCases": "none", "TraceFile": "trace.ndjson",
              "SegFile": "segs.ndjson", "Strict": strict, "Guarded": not invariants}
    consts.update(devmap(devs))
    cfg = vlib.cfg_text(spec="TraceSpec", constants=consts,
                        invariants=["Reached"] + (["Progress", "Good"] if invariants else []), view="TView", check_deadlock=False)
    r = vlib.tlc(ctx, "TraceReload", cfg, label=label, timeout=1500, expect_violation=invariants,
                 extra_files={"trace.ndjson": "\n".join(lines) + "\n", "segs.ndjson": "\n".join(bounds) + "\n"})
    acc = {c["accept"] for c in r.cases if "accept" in c}
    r.stuck_at = max([c["at"] for c in r.cases if "at" in c] + [0])      # diagnosis runs: first event no behaviour emits
    return {k for k in range(len(segs)) if (k + 1) not in acc}, r


def corrupt_variants(seg):
    """Self-test material: one recorded field corrupted, one event dropped."""
    out = []
    idx = [k for k, e in enumerate(seg) if e["ev"] == "vm.line.start"]
    if idx:
        k = idx[len(idx) // 2]
        bad = [dict(e) for e in seg]
        bad[k]["line"] = bad[k]["line"] + "~"
        out.append(("field", bad))
    idx = [k for k, e in enumerate(seg) if e["ev"] == "vm.line.end"]
    if idx:
        k = idx[len(idx) // 2]
        out.append(("drop", [dict(e) for j, e in enumerate(seg) if j != k]))
    return out


def go_test_traces(ctx, pkgs, run=None, skip=None, timeout=900):
    path = os.path.join(ctx.sub("gotest"), "hooks.ndjson")
    cmd = ["go", "test", "-tags", "verif", "-vet=off", "-count=1"]
    if run:
        cmd += ["-run", run]
    if skip:
        cmd += ["-skip", skip]
    cmd += pkgs
    env = vlib.goenv()
    env["VERIF_TRACE"] = path
    try:
        r = subprocess.run(cmd, cwd=ctx.repo, env=env, capture_output=True, text=True, timeout=timeout)
    except subprocess.TimeoutExpired:
        raise vlib.InfraError("go test (trace recording) timed out")
    if "[build failed]" in r.stdout or "[setup failed]" in r.stdout or not os.path.exists(path):
        raise vlib.InfraError("go test -tags verif did not run:\n%s\n%s" % (r.stdout[-2000:], r.stderr[-2000:]))
    return segments_from_verif_trace(path), cmd


# ---------------------------------------------------------------------------
RELOAD = dict(nlines=3, init=[1], loadable=[1], maxver=2, maxloads=1, unloadable=[])       # a reload at every position
UNLOAD = dict(nlines=2, init=[], loadable=[1], maxver=2, maxloads=2, unloadable=[1])       # load, unload, load again


def model_stage(ctx):
    big = ctx.thorough
    # corrected design: two programs, one loaded at the start, loads/reloads of both, unload of the second
    vlib.tlc(ctx, "Reload", model_cfg(4 if big else 3, [1, 2], [1], [1, 2], 3 if big else 2, 3 if big else 2, [2], ()),
             label="Reload-2prog", timeout=1500)
    if big:
        r1 = vlib.tlc(ctx, "Reload", model_cfg(4, [1], [1], [1], 3, 2, [1], ()),
                      label="Reload-1prog-coverage", timeout=1500, coverage=True)
        if r1.zero_cov:
            raise vlib.InfraError("Reload.tla: actions never taken (vacuous model): %s" % r1.zero_cov)
    # each deviation really breaks the property
    ctx.cov["dev_counterexamples"] = {}
    for dev, k in ((DEV, RELOAD), (DEVU, UNLOAD), (DEVR, RELOAD)):
        d = vlib.expect_dev_counterexample(
            ctx, "Reload", model_cfg(k["nlines"], [1], k["init"], k["loadable"], k["maxver"], k["maxloads"],
                                     k["unloadable"], (dev,)), dev)
        ctx.cov["dev_counterexamples"][dev] = d.violated


def emit_set(ctx, label, k, devs, mode="prefix"):
    return emit_cases(ctx, label, k["nlines"], k["init"], k["loadable"], k["maxver"], k["maxloads"], k["unloadable"],
                      devs, mode=mode)


def classify_replay(ctx, binary, cases, results, held, what):
    """Mismatches of the real code against the model it is held to are re-executed from a clean start."""
    byid = {c["id"]: c for c in cases}
    bad = [r for r in results.values() if isinstance(r, dict) and not r["ok"]]
    unrepro = None
    for r in bad[:8]:
        c = byid[r["id"]]
        again = None
        for _try in range(30):      # what the gates do not order is up to the scheduler: a few clean re-executions
            again = run_replay(ctx, binary, [c])[c["id"]]
            if not again["ok"]:
                break
        mm = r.get("mismatch") or {"kind": "stuck", "why": "the run did not terminate"}
        if again["ok"]:
            unrepro = unrepro or "replay mismatch not reproduced (%s, case [%s]): %s" % (what, short(c), mm)
            continue
        if mm["kind"] == "timeout" and (again.get("mismatch") or {}).get("kind") == "timeout":
            # the real code cannot follow the schedule: a model/code grain mismatch, not a verdict
            raise vlib.InfraError("the real code cannot follow a schedule of Reload.tla (%s): [%s] at step %s: %s" % (
                what, short(c), mm.get("step"), mm))
        ctx.violation({"kind": "replay", "held_to": sorted(held), "case": c, "mismatch": mm, "trace": r["trace"]},
                      "runtime departs from Reload.tla (%s) at step %s of [%s]: %s %s (got %s, model %s)" % (
                          ("with " + "+".join(sorted(held))) if held else "corrected design", mm.get("step"), short(c),
                          mm["kind"], mm["why"], mm.get("got"), mm.get("want")))
    if unrepro and not ctx.violations:
        raise vlib.InfraError(unrepro)
    return len(bad)


def probe(ctx, binary, cases, pick):
    """Does the real code follow a schedule, with the outcome, that only the deviation allows?  Positive
    evidence only: the schedule is followed to the end with the deviation's events and gauge values, twice."""
    cand = sorted([c for c in cases if pick(c)], key=lambda c: len(c["steps"]))
    if not cand:
        raise vlib.InfraError("the model with the deviation emitted no behaviour to probe with")
    p = dict(cand[0])
    p["deadline_ms"] = 3000
    res = None
    for _ in range(2):
        res = run_replay(ctx, binary, [p])[p["id"]]
        if not res["ok"]:
            return False, p, res
    return True, p, res


def acts(c):
    return [s["a"] for s in c["steps"]]


_emitted = {}


def emitted(ctx, name, k, devs):
    """Emission cache: the behaviours of configuration k under the deviations that matter for it."""
    eff = tuple(sorted(d for d in devs if not (d == DEVU and not k["unloadable"])))
    key = (name, eff)
    if key not in _emitted:
        _emitted[key] = emit_set(ctx, "emit-%s-%s" % (name, "+".join(x[4:10] for x in eff) or "corrected"), k, eff)
    return _emitted[key]


def run(ctx):
    binary = vlib.build(ctx, "c20")
    opened = set(vlib.open_devs(ctx.prop))
    _emitted.clear()
    model_stage(ctx)

    # ---- which model is the real code held to? --------------------------------------------------
    # each deviation is probed with a schedule of the model that has this deviation (and the ones already
    # found present) switched on, which the corrected design cannot follow or follows with another outcome
    present, witness = set(), {}
    plan = (
        (DEVR, "reload", RELOAD, "CompileAndRun registers the new version's metrics (Store.Add) while the old VM still runs",
         lambda c: c["lost"] and "RlSwapGo" not in acts(c)),
        (DEV, "reload", RELOAD, "CompileAndRun does not wait for the previous VM",
         lambda c: not c["inorder"]),
        (DEVU, "unload", UNLOAD, "UnloadProgram does not wait for the VM",
         lambda c: not c["inorder"] and "Unload" in acts(c)),
    )
    for dev, name, k, site, pick in plan:
        base = tuple(sorted((present & {DEVR}) | {dev}))
        ok, p, res = probe(ctx, binary, emitted(ctx, name, k, base), pick)
        if not ok:
            vlib.log("%s: the real code does not follow the deviation's witness schedule (%s)" % (dev, res.get("mismatch")))
            continue
        present.add(dev)
        w = res["writes"][0]
        if dev == DEVR:
            text = ("%s: schedule [%s] on the real runtime: the old VM applies writes (line, version) %s but the store "
                    "exports %s - the effect of those lines is lost" % (site, short(p), w, p["steps"][-1]["g"][0]))
        else:
            text = ("%s: schedule [%s] on the real runtime gives gauge writes (line, version) %s - line %d (old VM) is "
                    "applied after line %d (new VM)" % (site, short(p), w, w[-1][0], w[-2][0]))
        witness[dev] = {"schedule": short(p), "writes": w, "exported_after": p["steps"][-1]["g"][0]}
        if dev in opened:
            ctx.known_finding(dev, text)
        else:
            ctx.violation({"kind": "replay", "held_to": [], "probe": dev, "case": p, "trace": res["trace"]}, text)
    if ctx.violations:
        return
    for dev in opened - present:
        if dev in DEVS:
            vlib.log("open finding %s not reproduced; the code is held to the corrected design there" % dev)
    held = tuple(sorted(present))

    # ---- direction A --------------------------------------------------------------------------
    sets = [("reload at every position, 3 lines", emitted(ctx, "reload", RELOAD, held)),
            ("load + unload + load again, 2 lines", emitted(ctx, "unload", UNLOAD, held))]
    if ctx.thorough:
        sets.append(("two reloads, 3 lines", emit_set(ctx, "emit-2reloads", dict(RELOAD, maxver=3, maxloads=2), held)))
        sets.append(("reload + unload, 4 lines",
                     emit_set(ctx, "emit-4lines", dict(RELOAD, nlines=4, maxloads=1, unloadable=[1]), held)))
        sets.append(("every complete behaviour, 2 lines",
                     emit_set(ctx, "emit-full", dict(RELOAD, nlines=2), held, mode="terminal")))
    segs, seg_src = [], []
    nontriv = set()
    for what, cases in sets:
        if not cases:
            raise vlib.InfraError("TLC emitted no cases for %s" % what)
        results = run_replay(ctx, binary, cases)
        partial = results.pop("truncated", False) or any((r.get("mismatch") or {}).get("kind") == "crash" for r in results.values())
        if len(results) != len(cases) and not partial:
            raise vlib.InfraError("harness lost cases (%s)" % what)
        classify_replay(ctx, binary, cases, results, held, what)
        ran = [c for c in cases if c["id"] in results]
        ctx.cov["traces_validated_against_impl"] += len(ran)
        ctx.cov["evaluations"] += sum(len(c["steps"]) for c in ran)
        nontriv |= nontrivial_keys(ran)
        mid = cases[len(cases) // 2]
        ctx.sample({"set": what, "schedule": short(mid), "procd": mid["procd"], "writes": mid["writes"]})
        # every replayed case was compared action by action; its trace is validated as well for all (thorough)
        # or a quarter (quick) of the two base sets and a twentieth of the large thorough-only sets
        step = (1 if what in [w for w, _ in sets[:2]] else 20) if ctx.thorough else 4
        for c in cases[::step]:
            r = results.get(c["id"])
            if r and r.get("trace") and not r.get("stuck"):
                segs.append(segment_from_harness(r["trace"]))
                seg_src.append({"kind": "replay", "set": what, "case": c})
    if ctx.violations:
        return

    # ---- direction B --------------------------------------------------------------------------
    nf = 400 if ctx.thorough else 60
    recs = vlib.run_harness(ctx, binary, args=["-mode", "fuzz", "-n", str(nf)], timeout=1200)
    fz = [r for r in recs if r.get("fuzz")]
    if len(fz) < nf:
        raise vlib.InfraError("fuzz driver returned %d of %d runs" % (len(fz), nf))
    for r in fz:
        if r.get("stuck") or not r["ok"]:
            raise vlib.InfraError("fuzz run %s did not complete (seed %s)" % (r["id"], r["seed"]))
        segs.append(segment_from_harness(r["trace"]))
        seg_src.append({"kind": "fuzz", "seed": r["seed"], "index": r["id"], "n": nf})
    if ctx.thorough:
        tsegs, cmd = go_test_traces(ctx, ["./internal/runtime/", "./internal/mtail/"],
                                    skip="TestExamplePrograms|Comparison|Benchmark")
    else:
        tsegs, cmd = go_test_traces(ctx, ["./internal/runtime/", "./internal/mtail/"],
                                    run="TestNewProg|TestProgramReload|TestProgramUnload|TestLoadProg|TestCompileAndRun|TestNewRuntime")
    if not tsegs:
        raise vlib.InfraError("the repository tests produced no hook events (hooks missing?)")
    for s in tsegs:
        segs.append(s)
        seg_src.append({"kind": "gotest", "cmd": " ".join(cmd)})
    # self-test: a corrupted field and a dropped event must be rejected
    base = next((s for s, src in zip(segs, seg_src) if src["kind"] == "replay" and
                 any(e["ev"] == "rt.load.swapped" and e["vm"] % 100 == 2 for e in s)), None)
    if base is None:
        raise vlib.InfraError("no trace with a reload for the self-test")
    selft = corrupt_variants(base)
    if len(selft) != 2:
        raise vlib.InfraError("self-test variants could not be built")
    for kind, s in selft:
        segs.append(s)
        seg_src.append({"kind": "selftest", "variant": kind})

    # the specification the real code is held to: the corrected design, or - while a finding is open and its
    # witness schedule reproduces - the design with that deviation (a superset at trace level)
    rej, _ = validate_segments(ctx, segs, held, not held, "trace-held")
    for k, src in enumerate(seg_src):
        if src["kind"] == "selftest" and k not in rej:
            raise vlib.InfraError("TraceReload.tla accepted a trace with a %s (self-test): the trace spec does not bind"
                                  % ("corrupted field" if src["variant"] == "field" else "dropped event"))
    real_rej = sorted(k for k in rej if seg_src[k]["kind"] != "selftest")
    ctx.cov["traces_validated_against_impl"] += len(segs) - 2
    ctx.cov["trace_events"] = sum(len(s) for s in segs)
    ctx.cov["trace_segments"] = {"replay": sum(1 for s in seg_src if s["kind"] == "replay"), "fuzz": len(fz),
                                 "gotest": len(tsegs), "rejected": len(real_rej)}
    unreproduced = []
    for k in real_rej:
        src = seg_src[k]
        # diagnosis: the segment alone, invariants as INVARIANTs
        _, dr = validate_segments(ctx, [segs[k]], held, not held, "trace-diagnose", invariants=True)
        at = dr.stuck_at if dr else 0
        ev = segs[k][at - 1] if 0 < at <= len(segs[k]) else {}
        why = ("invariant %s violated" % dr.violated) if dr and dr.violated else \
            "no behaviour of Reload.tla emits event #%d %s" % (at, json.dumps(ev, sort_keys=True))
        if src["kind"] == "replay":
            c = src["case"]
            hit = False
            for _try in range(5):        # what the gates do not order is up to the scheduler: a few clean re-executions
                again = run_replay(ctx, binary, [c])[c["id"]]
                rj, _ = validate_segments(ctx, [segment_from_harness(again["trace"])], held, not held, "trace-recheck")
                if rj:
                    hit = True
                    break
            if not hit:
                unreproduced.append(short(c))
                continue
        ctx.violation({"kind": "trace", "held_to": sorted(held), "source": {k2: v for k2, v in src.items() if k2 != "case"},
                       "schedule": short(src["case"]) if "case" in src else None, "events": segs[k][:600], "why": why},
                      "a recorded execution of the real runtime is not a behaviour of Reload.tla%s: %s (%s)" % (
                          (" even with " + "+".join(held)) if held else "", why, src["kind"]))
        if len(ctx.violations) >= 3:
            break
    if unreproduced and not ctx.violations:
        raise vlib.InfraError("trace rejection(s) not reproduced in 5 clean re-executions each, for schedule(s) %s" % unreproduced[:4])

    ctx.cov["distinct_nontrivial"] = len(nontriv)
    ctx.cov["exhaustive"] = True
    ctx.cov["rule"] = ("distinct (control state, action) pairs of Reload.tla executed on the real runtime under blocking gates "
                       "while a load/unload is in progress or more than one version of the program is alive; every "
                       "transition of the 1-program state graph (3 lines x reload at every position; load+unload+load; "
                       "thorough: two reloads, 4 lines, and every complete 2-line behaviour) is replayed")
    ctx.cov["constants"] = {"replayed": [w for w, _ in sets], "model": "2 programs x %d lines, MaxVer %d" % (
        4 if ctx.thorough else 3, 3 if ctx.thorough else 2), "fuzz_runs": nf,
        "held_to": "corrected design" + "".join(" + " + d for d in held)}
    ctx.assumptions += [
        "Go sync.RWMutex: Unlock grants pending readers, RUnlock of the last reader grants the pending writer, a pending writer "
        "excludes new readers; unbuffered channel send/receive rendezvous (modelled as eager hand-over)",
        "the datum of a dimensionless gauge is shared between the versions of a program (Store.Add copies the old LabelValue)",
        "program names / VM addresses in traces are renamed to small integers by the check (pure renaming)",
    ]
    if witness:
        ctx.cov["known_finding_witness"] = witness


def replay(ctx, path):
    blob = json.load(open(path))["case"]
    binary = vlib.build(ctx, "c20")
    held = tuple(blob.get("held_to") or ())
    if blob.get("kind") == "replay":
        c = blob["case"]
        r = run_replay(ctx, binary, [c])[c["id"]]
        if "probe" in blob:
            if r["ok"]:
                ctx.violation(blob, "reproduced: the real runtime follows the schedule that only %s allows; writes %s" % (
                    blob["probe"], r["writes"]))
            else:
                print("replay: the deviation's schedule is not followed (not reproduced): %s" % r.get("mismatch"))
        elif not r["ok"]:
            ctx.violation(blob, "reproduced: %s" % r.get("mismatch"))
        else:
            print("replay: the schedule is followed as the model predicts (not reproduced)")
    else:
        rj, _ = validate_segments(ctx, [blob["events"]], held, not held, "trace-replay")
        if rj:
            ctx.violation(blob, "reproduced: recorded trace rejected by TraceReload.tla")
        else:
            print("replay: the recorded trace is accepted")
