"""C04 - Accepted programs never fault inside the VM."""
import json
import os
import re
import vlib
import langcheck

LEVEL = "model_checking"
COMPILES_PROGRAMS = True      # check reports mlang.Compile's long-lived-compiler comparison (vlib.report_compiler_reuse)
META = {
    "text": "spec/VM.tla is the bytecode interpreter abstracted to operand representations (Go int vs int64 vs float64 vs string vs bool vs "
            "datum-of-type vs metric vs duration), program counter and constant/regexp/metric indexes, with every checked runtime error "
            "as a normal outcome and everything else as `fault`.  The model executes the REAL bytecode: each program (TLC-generated "
            "well-typed and deliberately loosely-typed programs that the compiler accepts, plus the repository's example programs) is "
            "compiled by the real compiler and its object exported; TLC explores ALL paths of every program (explore mode) and validates "
            "the pc sequence the real VM recorded for every real line against the model (trace mode, a stuck trace is a TLC deadlock).",
    "note": "A fault TLC finds on the abstract machine is only a candidate; only internal-fault messages of the real VM (or a real trace the "
            "model rejects) count.  Memory safety of Go itself is not modelled.",
    "technique": "TLC exhaustive path exploration of real bytecode under spec/VM.tla + trace validation of real VM pc traces (directions A and B)",
    "design_ref": "DESIGN.md 5/C04",
}

EXAMPLES = {"apache_combined": "apache-combined.log", "apache_common": "apache-common.log", "lighttpd": "lighttpd_access.log",
            "mysql_slowqueries": "mysql_slowqueries.log", "ntpd": "ntp4", "ntpd_peerstats": "xntp3_peerstats", "rsyncd": "rsyncd.log",
            "sftp": "sftp_chroot.log", "vsftpd": "vsftpd_log", "linecount": "rsyncd.log", "histogram": None, "timer": None,
            "postfix": None, "rails": None, "apache_metrics": None, "dhcpd": None, "nocode": None}


def signature(op, msg):
    """Stable identification of an internal fault: the instruction and the kind of operand it choked on."""
    m = re.search(r"(unexpected int type \S+|unexpected float type \S+|unexpected type for string \S+|Unexpected type to \w+|"
                  r"Failed to pop a timestamp|Invalid re index|panic in thread|cannot compare \S+|illegal instruction|Unexpected value on stack|PANIC escaped)", msg)
    what = m.group(1) if m else msg[:60]
    if what in ("panic in thread", "PANIC escaped"):
        k = re.search(r"(is not an? \w+|index out of range|nil pointer dereference|interface conversion|invalid memory address|Invalid instruction)", msg)
        what += ": " + (k.group(1) if k else "other")
    return "%s: %s" % (op, what)


def vm_cfg(mode, progfile, deadlock):
    return vlib.cfg_text(spec="Spec", constants={"Mode": mode, "ProgFile": progfile},
                         invariants=["TypeOK", "EmitFault", "EmitRealFault"], check_deadlock=deadlock)


def example_cases(ctx):
    out = []
    n = 0
    for name, log in sorted(EXAMPLES.items()):
        p = os.path.join(ctx.repo, "examples", name + ".mtail")
        if not os.path.exists(p):
            continue
        lines = []
        if log:
            lp = os.path.join(ctx.repo, "internal/mtail/testdata", log)
            if os.path.exists(lp):
                with open(lp, errors="replace") as f:
                    lines = [l.rstrip("\n") for l in f.readlines()[:40]]
        n += 1
        out.append({"seed": 9000000 + n, "src": open(p).read(), "rawlines": lines or ["x", "1 2 3"], "name": name + ".mtail"})
    return out


def run(ctx):
    binary = vlib.build(ctx, "vmx")
    nl, nt, no = (1200, 600, 2500) if ctx.thorough else (150, 80, 350)
    base = ctx.seed * 100000
    cases = []
    for profile, lo, n in (("lang", base + 90000, nl), ("time", base + 93000, nt), ("loose", base + 95000, no)):
        cases += [{"seed": c["seed"], "prog": c["prog"], "lines": c["lines"]} for c in langcheck.generate(ctx, profile, lo, lo + n - 1)]
    cases += example_cases(ctx)
    d = ctx.sub("progs")
    progfile = os.path.join(d, "progs.ndjson")
    recs = [r for r in vlib.run_harness(ctx, binary, args=["-progs", progfile], cases=cases, timeout=2400) if "seed" in r]
    by = {r["seed"]: r for r in recs}
    accepted = [r for r in recs if r["accepted"]]
    for r in recs:
        if r.get("compile_panic"):
            ctx.violation({"source": r["src"], "panic": r["compile_panic"]}, "the compiler panicked: %s" % r["compile_panic"][:200])
    if len(accepted) < len(cases) // 3:
        raise vlib.InfraError("only %d of %d programs were accepted by the compiler" % (len(accepted), len(cases)))
    ctx.cov["programs_generated"] = len(cases)
    ctx.cov["programs_accepted"] = len(accepted)
    ctx.cov["evaluations"] = sum(len(r["traces"]) for r in accepted)
    # 1. all paths of the real bytecode
    ex = vlib.tlc(ctx, "VM", vm_cfg("explore", progfile, False), label="VM-explore", timeout=2400, heap="12g")
    cand = {}
    for c in ex.cases:
        cand.setdefault((c["id"], c["pc"]), c)
    # 2. the real VM's pc traces are paths of the model
    tr = vlib.tlc(ctx, "VM", vm_cfg("trace", progfile, True), label="VM-trace", timeout=2400, heap="12g", expect_violation=True)
    ctx.cov["traces_validated_against_impl"] = sum(len(r["traces"]) for r in accepted)
    if tr.violated:
        m = re.search(r"/\\ p = (\d+)", tr.trace_text)
        li = re.search(r"/\\ li = (\d+)", tr.trace_text)
        kk = re.findall(r"/\\ k = (\d+)", tr.trace_text)
        if tr.violated != "Deadlock" or not m:
            raise vlib.InfraError("trace validation failed unexpectedly (%s):\n%s" % (tr.violated, tr.trace_text[-1500:]))
        rec = accepted[int(m.group(1)) - 1]
        t = rec["traces"][int(li.group(1)) - 1]
        ctx.violation({"source": rec["src"], "line": t["line"], "pcs": t["pcs"], "stuck_at": int(kk[-1]) if kk else None, "real": t,
                       "tlc": tr.trace_text[-1200:]},
                      "the real VM's execution of line %r is not a path of VM.tla (stuck at trace position %s): the VM carried on where the "
                      "model allows only a fault, or ended differently" % (t["line"], kk[-1] if kk else "?"))
    # 3. internal faults the real VM reported
    known = [(re.compile(f["witness"]["signature_re"]), f) for f in vlib.load_findings(ctx.prop) if f["status"] == "open"]
    seen = {}
    confirmed = 0
    for r in accepted:
        for t in r["traces"]:
            if not (t["err"] and t["internal"]):
                continue
            pcs = t["pcs"]
            op = "?"
            c = cand.get((r["seed"], pcs[-1])) if pcs else None
            if c:
                op = c["op"]
                confirmed += 1
            sig = signature(op, t["msg"])
            seen.setdefault(sig, []).append((r, t))
    explained = {}
    for sig, items in sorted(seen.items()):
        r, t = min(items, key=lambda x: len(x[0]["src"]))
        hit = [f for rx, f in known if rx.search(sig)]
        if hit:
            e = explained.setdefault(hit[0]["deviation"], {"f": hit[0], "n": 0, "sigs": [], "eg": (r, t)})
            e["n"] += len(items)
            e["sigs"].append(sig)
        else:
            ctx.violation({"signature": sig, "source": r["src"], "line": t["line"], "message": t["msg"], "pcs": t["pcs"]},
                          "internal VM fault on an accepted program: %s (%s)" % (sig, t["msg"][:160]))
    for dev, e in sorted(explained.items()):
        r, t = e["eg"]
        ctx.known_finding(dev, "%s [%d real line executions, instructions %s; witness %r on line %r]" % (
            e["f"]["what"], e["n"], sorted({s.split(":")[0] for s in e["sigs"]}), e["f"]["witness"].get("source"), (e["f"]["witness"].get("lines") or [""])[0]))
    ctx.cov["fault_candidates_model"] = len(cand)
    ctx.cov["fault_candidates_confirmed_on_real_vm"] = confirmed
    ctx.cov["unconfirmed_candidates"] = len(cand) - len({(r["seed"], t["pcs"][-1]) for items in seen.values() for r, t in items if t["pcs"]})
    ctx.cov["distinct_nontrivial"] = len({json.dumps(r.get("ninstr")) + r["src"][:0] + str(r["seed"]) for r in accepted if r.get("ninstr", 0) > 10})
    ctx.cov["fault_signatures_seen"] = sorted(seen)
    a = accepted[len(accepted) // 2]
    ctx.sample({"source": a["src"], "instructions": a["ninstr"], "traces": a["traces"][:2]})
    ctx.cov["rule"] = ("programs: MtailGen profiles lang/time/loose (only those the real compiler accepts) + repository examples; every path of each "
                       "program's real bytecode explored by TLC; every real line's pc trace validated; non-trivial = accepted program with more than 10 instructions")
    ctx.assumptions += ["an internal VM fault is recognised by the VM's own error message classes (pop type errors, recovered panics, illegal instruction)"]


def replay(ctx, path):
    binary = vlib.build(ctx, "vmx")
    rc = json.load(open(path))["case"]
    progfile = os.path.join(ctx.sub("progs"), "progs.ndjson")
    recs = [r for r in vlib.run_harness(ctx, binary, args=["-progs", progfile],
                                        cases=[{"seed": 1, "src": rc["source"], "rawlines": [rc["line"]]}]) if "seed" in r]
    for t in recs[0].get("traces", []):
        if t["err"] and t["internal"]:
            ctx.violation(rc, t["msg"][:300])
    if recs[0].get("accepted") and not ctx.violations:
        tr = vlib.tlc(ctx, "VM", vm_cfg("trace", progfile, True), label="VM-trace", timeout=600, expect_violation=True)
        if tr.violated:
            print(tr.trace_text[-2500:])
            ctx.violation(rc, "reproduced: the real VM's execution of line %r is not a path of VM.tla (%s)" % (rc["line"], tr.violated))
