"""C24 - Invalid programs are rejected with a positioned error."""
import json
import vlib
import langcheck

LEVEL = "exploration"
META = {
    "text": "spec/MtailMut.tla states the static rules as WellFormed(P) and introduces exactly one defect (12 classes: undeclared metric, "
            "undefined capture group, undefined decorator, next outside a decorator, too many/few index keys, redeclaration, unused "
            "declaration, invalid regex, over-long regex, integer / or % by literal 0) at a seeded block position of a generated well-typed "
            "program; TLC checks WellFormed(base) and ~WellFormed(mutant) for every case and emits the mutants; the real compiler must "
            "reject each with at least one error positioned inside the source, and a real Runtime must not start it and must count one load "
            "error - also when a valid version of that name already runs and the defective source is offered twice.",
    "note": "Mutation positions are blocks in pre-order (top level, nested/else/otherwise/decorated blocks, decorator bodies); defects are "
            "inserted statements or declaration/pattern edits, not arbitrary token edits.",
    "technique": "TLA+ well-formedness predicate + TLC-generated one-defect mutants replayed into the real compiler and loader (direction A)",
    "design_ref": "DESIGN.md 5/C24",
}


def cfg(lo, hi, seedset=()):
    consts = {"SeedLo": lo, "SeedHi": hi, "SeedSet": set(seedset), "Profile": "lang", "YearOpt": False}
    for d in langcheck.DEVS:
        consts[d] = False
    return vlib.cfg_text(spec="MSpec", constants=consts, invariants=["BaseWellFormed", "MutantIllFormed", "MEmit"])


def judge(rec):
    bad = []
    if rec.get("panic"):
        bad.append("compiler panicked: %s" % rec["panic"][:200])
    if rec.get("obj") or not rec.get("errors"):
        bad.append("compiler accepted the program (object returned: %s, errors: %r)" % (rec.get("obj"), rec.get("errors")))
    elif rec.get("inside", 0) < 1:
        bad.append("no compile error is positioned inside the source: %s / %s" % (rec.get("positions"), rec.get("errors", "")[:200]))
    if rec.get("loader_panic"):
        bad.append("the program loader panicked: %s" % rec["loader_panic"][:200])
    if rec.get("handles"):
        bad.append("the loader started the program: handles %s" % rec["handles"])
    if rec.get("load_errors_delta") != 1:
        bad.append("prog_load_errors_total advanced by %s (expected 1)" % rec.get("load_errors_delta"))
    rl = rec.get("reload")
    if rl:
        # a valid version of that name runs; the defective source is offered twice: refused both times, the old version stays
        if rl["errors_first"] != 1 or not rl["error_recorded_first"]:
            bad.append("offered while a valid version runs: prog_load_errors_total +%s, error recorded: %s" % (rl["errors_first"], rl["error_recorded_first"]))
        if rl["errors_again"] != 1 or not rl["error_recorded_again"]:
            bad.append("the same defective source offered a second time is not refused again: prog_load_errors_total +%s, error recorded: %s"
                       % (rl["errors_again"], rl["error_recorded_again"]))
    if rec.get("loads_delta") != 0:
        bad.append("prog_loads_total advanced by %s for a rejected program" % rec.get("loads_delta"))
    return bad


def run(ctx):
    binary = vlib.build(ctx, "mutant")
    n = 3600 if ctx.thorough else 480
    lo = ctx.seed * 100000 + 70000
    r = vlib.tlc(ctx, "MtailMut", cfg(lo, lo + n - 1), label="MtailMut", timeout=2400, heap="12g", workers=4)
    if len(r.cases) != n:
        raise vlib.InfraError("TLC emitted %d mutants, expected %d" % (len(r.cases), n))
    recs = {x["seed"]: x for x in vlib.run_harness(ctx, binary, cases=r.cases, timeout=2400) if "seed" in x}
    classes = {}
    for c in r.cases:
        rec = recs.get(c["seed"])
        if rec is None:
            raise vlib.InfraError("no harness record for mutant %d" % c["seed"])
        ctx.cov["evaluations"] += 1
        ctx.cov["traces_validated_against_impl"] += 1
        classes[c["class"]] = classes.get(c["class"], 0) + 1
        bad = judge(rec)
        if bad and not ctx.enough():
            again = [x for x in vlib.run_harness(ctx, binary, cases=[c]) if "seed" in x][0]
            bad2 = judge(again)
            if bad2:
                ctx.violation({"seed": c["seed"], "class": c["class"], "what": c["what"], "source": again["src"], "mismatches": bad2,
                               "errors": again.get("errors")}, "mutant %d (%s): %s" % (c["seed"], c["class"], bad2[0][:250]))
    ctx.cov["distinct_nontrivial"] = len(r.cases)
    ctx.cov["defect_classes"] = classes
    m = r.cases[len(r.cases) // 2]
    ctx.sample({"seed": m["seed"], "class": m["class"], "what": m["what"], "source": recs[m["seed"]]["src"], "errors": recs[m["seed"]].get("errors")})
    ctx.cov["rule"] = "one mutant per seed, defect class = seed mod 12, position seeded; every mutant is distinct and non-trivial (ill-formed by TLC's check)"
    ctx.assumptions += ["regex length limit 1024 (the daemon's default) is passed to compiler and loader"]


def replay(ctx, path):
    binary = vlib.build(ctx, "mutant")
    rc = json.load(open(path))["case"]
    rec = [x for x in vlib.run_harness(ctx, binary, cases=[{"seed": rc["seed"], "class": rc["class"], "src": rc["source"]}]) if "seed" in x][0]
    bad = judge(rec)
    if bad:
        ctx.violation(rc, bad[0][:300])
