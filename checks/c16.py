"""C16 - A tailed file delivers every appended line exactly once across rotation.

spec/FileStream.tla models fileStream.stream (one action per branch of its loop
body: read, EOF+not-exist, EOF+rotated, EOF+truncated, EOF+idle, cancelled), the
embedded LineReader (operators of spec/LineReader.tla), TailPath/doPatternGlob
for the one tailed path and a filesystem (path -> inode -> bytes).  The
environment does one of nine operations, then the tailer observes it completely.
Ideal layer: Expected(history).

  1. TLC, corrected design (all DEV_ switches FALSE): every history of <= 5
     (thorough 7) operations from four initial file states, invariants
     ExactlyOnce / NeverWrong / TracksCurrent / PendingIsBuffer / CountersOK /
     AppendOnly; -coverage once (no action may be dead); -simulate for long
     histories.
  2. TLC with each *open* deviation switched on must produce its counterexample.
  3. Direction A: TLC prints every history (<= 4 quick; thorough <= 5, and 6 from an empty file; plus
     simulated long ones) with the model's observation after every step; the Go
     harness internal/verif/c16 replays them on the real filesystem against the
     real Tailer + fileStream (barriers: a waker.Waker with exact accounting and
     the tail.remove hook; no sleeps) and compares delivered lines, logstreams
     keys, stream-goroutine counts and the per-path expvar counters step by step.
  4. A mismatch is re-run from a clean directory, then checked against the
     specification with exactly the open deviations on (known finding) - what
     that does not explain is a VIOLATION.
"""
import json
import os
import concurrent.futures

import vlib
import wakercheck

LEVEL = "model_checking"
META = {
    "text": "TLC exhausts spec/FileStream.tla (fileStream.stream loop branches + LineReader + TailPath/doPatternGlob over a "
            "path->inode->bytes filesystem) against Expected(history) for every history of <=5 (thorough 7) operations over "
            "{line, fragment, CRLF line, truncate, rename+create (empty / with a first line), copy+truncate, delete, recreate, nop} from 4 initial file "
            "states, and every history of <=4 (thorough 5, and 6 from an empty file) operations plus simulated 40-operation ones is replayed on the real "
            "filesystem against the real Tailer/fileStream with deterministic waker barriers, comparing delivered lines, "
            "logstreams, goroutine counts and expvar counters after every step.",
    "note": "Premise of the property is built in: each operation is observed (one stream wake + one pattern poll) before the "
            "next; truncate means truncate-to-empty; one read returns all available bytes (chunking is C15). Trusts TLC, the "
            "OS file semantics (inode identity, O_APPEND, rename) and the harness' Waker implementation.",
    "technique": "TLA+ spec + TLC exhaustive/simulated histories replayed on the real filesystem into the real Tailer+logstream (direction A)",
    "design_ref": "DESIGN.md 5/C16, Appendix A.2",
}

OPS = ["line", "frag", "crlf", "trunc", "rotate", "rotatew", "copytrunc", "delete", "recreate", "nop"]
PRE = ["absent", "empty", "line", "frag"]
DEVS = ["DEV_FinishKeepsBuffer", "DEV_RotationDropsFragment"]
INVS = ["TypeOK", "ExactlyOnce", "NeverWrong", "TracksCurrent", "PendingIsBuffer", "CountersOK"]
END_OPS = ("trunc", "rotate", "rotatew", "copytrunc", "delete", "stop")


def _cfg(maxops, devs=(), emit=False, view=True, invs=None, minops=0, pre=PRE, props=True, script=""):
    consts = {"MaxOps": maxops, "MinOps": minops, "Ops": set(OPS), "PreKinds": set(pre), "EmitCases": emit,
              "ScriptFile": script}
    for d in DEVS:
        consts[d] = d in devs
    invs = list(invs if invs is not None else INVS)
    if emit:
        invs += ["ExactlyOnceHist", "GhostIsExpected", "Emit"] if not devs else ["Emit"]   # hist is in the fingerprint here
    return vlib.cfg_text(spec="Spec", constants=consts, invariants=invs,
                         properties=["AppendOnly"] if props and not devs else [],
                         view="View" if view else None)


def key(c):
    return c["pre"] + ":" + ",".join(o["op"] for o in c["hist"])


def nontrivial(c):
    """a file generation ends (or tailing stops) while an unterminated fragment is pending"""
    pend = False
    for o in c["hist"]:
        if o["op"] == "frag":
            pend = True
        elif o["op"] in ("line", "crlf"):
            pend = False
        elif o["op"] in END_OPS:
            if pend:
                return True
            pend = False
    return False


def render(c):
    m = {"n": "\\n", "r": "\\r"}
    parts = []
    for o in c["hist"]:
        if o["bytes"]:
            parts.append('%s "%s"' % (o["op"], "".join(m.get(b, b) for b in o["bytes"])))
        else:
            parts.append(o["op"])
    return "file initially %s; %s" % (c["pre"], "; ".join(parts))


class Emitted:
    """Streams TLC CASE payloads into ndjson shards on disk."""

    def __init__(self, ctx, name, shards, keep=None):
        self.dir = ctx.sub(name)
        self.paths = [os.path.join(self.dir, "shard%02d.ndjson" % i) for i in range(shards)]
        self.files = [open(p, "w") for p in self.paths]
        self.n = 0
        self.keep = keep            # None = everything, else set of keys
        self.nontrivial = set()
        self.first = []

    def sink(self, c):
        k = key(c)
        if self.keep is not None and k not in self.keep:
            return
        self.files[self.n % len(self.files)].write(json.dumps(c, separators=(",", ":")) + "\n")
        self.n += 1
        if nontrivial(c):
            self.nontrivial.add(k)
            if len(self.first) < 3 and len(c["hist"]) >= 3:
                self.first.append(c)

    def close(self):
        for f in self.files:
            f.close()
        self.paths = [p for p in self.paths if os.path.getsize(p) > 0]


def _harness(ctx, binary, em, what):
    """Run one harness process per shard; returns the mismatch records."""
    if em.n == 0:
        raise vlib.InfraError("TLC emitted no cases for %s" % what)
    nproc = max(1, len(em.paths))
    per = max(1, vlib.NCPU // nproc)
    env = {"VERIF_WORKERS": str(per), "VERIF_TMP": ctx.sub("fs")}

    def one(p):
        return vlib.run_harness(ctx, binary, infile=p, timeout=3000, env=env)

    recs = []
    with concurrent.futures.ThreadPoolExecutor(max_workers=nproc) as ex:
        for r in ex.map(one, em.paths):
            recs += r
    done = sum(r["cases"] for r in recs if r.get("summary"))
    skipped = sum(r.get("skipped", 0) for r in recs if r.get("summary"))
    if done + skipped != em.n:
        raise vlib.InfraError("harness processed %d of %d cases (%s)" % (done, em.n, what))
    if skipped:
        ctx.cov["skipped_after_stalls"] = ctx.cov.get("skipped_after_stalls", 0) + skipped
    ctx.cov["traces_validated_against_impl"] += done
    ctx.cov["evaluations"] += done
    return [r for r in recs if r.get("mismatch")]


def _single(ctx, binary, case):
    """one case, fresh process"""
    p = os.path.join(ctx.sub("one"), "case.ndjson")
    with open(p, "w") as f:
        f.write(json.dumps(case, separators=(",", ":")) + "\n")
    recs = vlib.run_harness(ctx, binary, infile=p, timeout=600,
                            env={"VERIF_WORKERS": "1", "VERIF_TMP": ctx.sub("fs")})
    if not any(r.get("summary") and r["cases"] == 1 for r in recs):
        raise vlib.InfraError("harness did not run the case")
    return [r for r in recs if r.get("mismatch")]


def _emit(ctx, maxops, label, shards, simulate=None, seed=None, pre=PRE, minops=0):
    """Histories of the corrected specification: all of length <= maxops, or `simulate` random ones of length maxops."""
    em = Emitted(ctx, "cases-" + label, shards)
    if simulate:
        vlib.tlc(ctx, "FileStream", _cfg(maxops, emit=True, view=False, minops=maxops, props=False,
                                         invs=["TypeOK", "ExactlyOnce", "NeverWrong", "TracksCurrent"]),
                 simulate=simulate, depth=12 * maxops + 20, seed=seed, label=label, case_sink=em.sink, timeout=1500)
    else:
        vlib.tlc(ctx, "FileStream", _cfg(maxops, emit=True, view=False, invs=["TypeOK", "ExactlyOnce"], pre=pre,
                                         minops=minops),
                 label=label, case_sink=em.sink, timeout=2400)
    em.close()
    return em


def script_of(c):
    return {"pre": c["pre"], "ops": [o["op"] for o in c["hist"] if o["op"] != "stop"]}


def _scripted(ctx, scripts, devs, label, shards=1):
    """The given histories (and only these) evaluated by the specification with the deviations `devs` on."""
    em = Emitted(ctx, "cases-" + label, shards)
    text = "".join(json.dumps(x, separators=(",", ":")) + "\n" for x in scripts)
    maxops = max([len(x["ops"]) for x in scripts] + [1])
    vlib.tlc(ctx, "FileStream", _cfg(maxops, devs, emit=True, view=False, invs=[] if devs else ["TypeOK", "ExactlyOnce"],
                                     script="scripts.ndjson", props=False),
             label=label, case_sink=em.sink, timeout=2400, extra_files={"scripts.ndjson": text})
    em.close()
    if em.n != len({json.dumps(x, sort_keys=True) for x in scripts}):
        raise vlib.InfraError("scripted TLC run produced %d histories for %d scripts (%s)" % (em.n, len(scripts), label))
    return em


def _classify(ctx, binary, mism, opendevs, what):
    """mism: mismatch records against the corrected specification (each already reproduced once inside the harness).
    Explained = the real code agrees, on the same history, with the specification with exactly the open deviations on."""
    if not mism:
        return
    unexplained = list(mism)
    if opendevs:
        alt = _scripted(ctx, [script_of(m["case"]) for m in mism], tuple(opendevs), "explain-" + what.replace(" ", "-"),
                        shards=4 if len(mism) > 2000 else 1)
        n0 = ctx.cov["traces_validated_against_impl"]
        still = {key(m["case"]) for m in _harness(ctx, binary, alt, what + " (open deviations on)")}
        ctx.cov["traces_validated_against_impl"] = n0          # the same histories, not new ones
        unexplained = [m for m in mism if key(m["case"]) in still]
        ctx.cov["explained_by_open_findings"] = ctx.cov.get("explained_by_open_findings", 0) + len(mism) - len(unexplained)
    vlib.log("%s: %d mismatches against the corrected specification, %d not explained by open findings" % (
        what, len(mism), len(unexplained)))
    unexplained.sort(key=lambda m: bool(m.get("stall")))
    for m in unexplained[:8]:
        # once more, alone, in a fresh process, before it is believed
        again = _single(ctx, binary, m["case"])
        if again:
            a = again[0]
            ctx.violation({"case": m["case"], "history": render(m["case"]), "got": a.get("got"), "step": a.get("step")},
                          "%s: %s" % (render(m["case"]), a["why"]))
    if len(unexplained) > 8 and ctx.violations:
        ctx.violation_count = getattr(ctx, "violation_count", 0) + len(unexplained) - 8


def _witnesses(ctx, binary, opendevs, departs, covered):
    """Re-execute the witness of every open finding: the real code must still depart from the corrected
    specification there and agree with the specification with exactly that deviation on.
    departs: key -> mismatch record of the bulk replay; covered(script) says whether the bulk replay ran it."""
    ents = {d: vlib.open_finding(ctx.prop, d) for d in opendevs}
    scripts = {d: {"pre": e["witness"].get("pre", "empty"), "ops": list(e["witness"]["ops"])} for d, e in ents.items()}
    if not scripts:
        return
    n0 = ctx.cov["traces_validated_against_impl"]
    extra = [sc for sc in scripts.values() if not covered(sc)]
    if extra:
        for m in _harness(ctx, binary, _scripted(ctx, extra, (), "witness-ideal"), "witnesses"):
            departs[key(m["case"])] = m
    for d, sc in scripts.items():
        ent = ents[d]
        k = sc["pre"] + ":" + ",".join(sc["ops"] + ["stop"])
        m1 = departs.get(k)
        m2 = _harness(ctx, binary, _scripted(ctx, [sc], (d,), "witness-" + d), "witness " + d + " with the deviation on")
        if m1 and not m2:
            ctx.known_finding(d, "%s [%s] witness: %s -> %s" % (ent["what"], ent["site"], render(m1["case"]), m1["why"]))
        elif not m1:
            vlib.log("open finding %s: the witness no longer departs from the corrected specification" % d)
        else:
            vlib.log("open finding %s: the witness is not explained by the deviation alone: %s" % (d, m2[0]["why"]))
    ctx.cov["traces_validated_against_impl"] = n0 + len(extra)


def run(ctx):
    binary = vlib.build(ctx, "c16")
    opendevs = [d for d in vlib.open_devs(ctx.prop) if d in DEVS]
    # 0. the barrier this replay engine (and those of C18, C25) drives the stream goroutines with: spec/Waker.tla
    wakercheck.run(ctx)

    # 1. model: corrected design
    rc = vlib.tlc(ctx, "FileStream", _cfg(3, view=True), coverage=True, label="FileStream-coverage", timeout=600)
    if rc.zero_cov:
        raise vlib.InfraError("FileStream.tla: actions never taken (vacuous model): %s" % rc.zero_cov)
    model_ops = 7 if ctx.thorough else 5
    r = vlib.tlc(ctx, "FileStream", _cfg(model_ops, view=True), label="FileStream-ops%d" % model_ops, timeout=2400,
                 heap="12g" if ctx.thorough else None)
    if ctx.thorough:      # (quick: the simulated histories emitted for replay below are checked against the same invariants)
        vlib.tlc(ctx, "FileStream", _cfg(40, view=True, minops=40, props=False),
                 simulate=1000, depth=500, seed=ctx.seed, label="FileStream-sim40", timeout=900)
    # 2. every open deviation really breaks the property in the model
    for d in opendevs:
        vlib.expect_dev_counterexample(ctx, "FileStream", _cfg(4, (d,), invs=["NeverWrong", "ExactlyOnce"]), d, timeout=600)

    # 3. replay on the real filesystem
    shards = 4 if ctx.thorough else 2
    seen = set()
    total = 0
    departs = {}
    # (bound, initial states, least length): all four initial states up to the first bound; thorough adds every
    # history of exactly one more operation from the plain initial state (an empty file)
    plan = [(5, PRE, 0), (6, ["empty"], 6)] if ctx.thorough else [(4, PRE, 0)]
    replay_ops = plan[-1][0]
    for bound, pre, least in plan:
        what = "histories of %d..%d operations from %s" % (least, bound, "/".join(pre))
        em = _emit(ctx, bound, "ops%d" % bound, shards, pre=pre, minops=least)
        for c in em.first[:2]:
            ctx.sample({"history": render(c), "expected_lines_per_step": [o["lines"] for o in c["obs"]]})
        mism = _harness(ctx, binary, em, what)
        if least == 0:
            departs.update({key(m["case"]): m for m in mism})
        _classify(ctx, binary, mism, opendevs, "histories <= %d" % bound)
        seen |= em.nontrivial
        total += em.n
    first_bound, first_pre = plan[0][0], plan[0][1]
    _witnesses(ctx, binary, opendevs, departs,
               lambda sc: len(sc["ops"]) <= first_bound and sc["pre"] in first_pre and set(sc["ops"]) <= set(OPS))
    # long simulated histories
    sim = _emit(ctx, 40, "sim40", shards, simulate=800 if ctx.thorough else 150, seed=ctx.seed * 31 + 5)
    if sim.first:
        ctx.sample({"history": render(sim.first[0])})
    _classify(ctx, binary, _harness(ctx, binary, sim, "simulated histories"), opendevs, "simulated histories")
    seen |= sim.nontrivial
    total += sim.n

    if ctx.cov.get("skipped_after_stalls") and not ctx.violations:
        raise vlib.InfraError("%d cases were skipped after barriers stalled repeatedly, and the stalls did not reproduce alone"
                              % ctx.cov["skipped_after_stalls"])
    ctx.cov["distinct_nontrivial"] = len(seen)
    ctx.cov["exhaustive"] = True
    ctx.cov["rule"] = ("replayed histories (initial file state + operation sequence + stop) in which a file generation ends "
                       "(truncate, rename+create, copy+truncate, delete, or tailing stops) while an unterminated fragment "
                       "is pending; replayed: %s, and %d simulated 40-operation histories "
                       "(%d in total)" % ("; ".join("all histories of %d..%d operations from initial states %s" % (m, b, "/".join(p))
                                                    for b, p, m in plan), sim.n, total))
    ctx.cov["constants"] = {"model_MaxOps": model_ops, "replay_MaxOps": replay_ops, "operations": OPS, "initial_states": PRE,
                            "sim_ops": 40, "sim_behaviours_replayed": sim.n, "model_distinct_states": r.distinct}
    ctx.assumptions += [
        "each filesystem operation is completely observed (one wake of every stream goroutine, then one pattern poll) before the next one - the premise of the property",
        "truncate = truncate to length 0; truncate-and-rewrite within one unobserved step is outside the property",
        "one read returns all bytes available (files are far smaller than the 128 KiB buffer); chunking is covered by C15",
        "the harness' waker.Waker (tailh.Barrier) replaces waker.NewTest, whose accounting is racy for goroutines that park for the first time between two awaken calls",
        "OS semantics trusted: inode identity (os.SameFile), O_APPEND writes, rename, unlink of an open file",
    ]


def replay(ctx, path):
    binary = vlib.build(ctx, "c16")
    case = json.load(open(path))["case"]["case"]
    for a in _single(ctx, binary, case):
        ctx.violation({"case": case, "history": render(case), "got": a.get("got"), "step": a.get("step")},
                      "%s: %s" % (render(case), a["why"]))
