"""C25 - Self-monitoring counters are exact.

spec/Counters.tla: the expvars as variables updated where the code updates them
(reader.send, the fan-out loop, LoadProgram/CompileAndRun branch by branch,
UnloadProgram, errorf), history variables counting the events themselves at
their outcomes; TLC checks CountersExact over all bounded event histories.
spec/TraceCounters.tla (direction B) validates traces of internal/verif/c25,
which drives a real runtime.Runtime and a real mtail.Server (temp log files,
waker.NewTest barriers) over seeded random histories and records its own
operations, every hook event and the expvar values at quiescent points; and
(events mode) the hook traces of the repository's own tests.
"""
import json
import os
import subprocess

import vlib

LEVEL = "model_checking"
META = {
    "text": "TLC exhausts spec/Counters.tla (counters updated at the code's update sites, histories counted at outcomes; loader "
            "branches open/hash/compile/Store.Add/ProgLoads/swap; 6 source kinds incl. compile failure and registration "
            "refusal) for 2 programs x 3 load attempts x 1 line and 1 program x 2 files x 2 lines; seeded random histories "
            "(loads of every kind, unloads, numeric/non-numeric lines) are run on a real runtime.Runtime and a real "
            "mtail.Server and every hook event, driver operation and expvar reading is validated by TraceCounters.tla; each "
            "end-to-end run ends with a burst of appended lines nobody was woken for, a graceful shutdown, and the comparison "
            "lines_total = sum of log_lines_total.",
    "note": "Expvars are read only at quiescent points (after vm.line.end of every program for every line, after each load "
            "returns); trusts the hook points to sit at the update sites and TLC/Json module.",
    "technique": "TLA+ spec + TLC exhaustive; recorded executions (events + expvar readings) validated by a TLA+ trace spec (B)",
    "design_ref": "DESIGN.md 5/C25, Appendix A.4, A.6",
}
DEV = "DEV_RegisterErrorNotCounted"
INVS = ["TypeOK", "LinesTotalExact", "LogLinesExact", "NothingLost", "RuntimeErrorsExact", "LoadCountersExact"]
EVENT_HOOKS = {"lr.line", "lr.finish", "tail.fwd", "rt.line.recv", "rt.line.sent", "vm.line.start"}


def S(xs):
    return "={" + ", ".join(str(x) for x in sorted(xs)) + "}"


def model_cfg(progs, files, maxlines, maxloads, maxstamp, direct, dev):
    return vlib.cfg_text(spec="Spec", constants={
        "Progs": S(progs), "Files": S(files), "MaxLines": maxlines, "MaxLoads": maxloads, "MaxStamp": maxstamp,
        "DirectInput": direct, DEV: dev, "KeepLast": False}, invariants=INVS, view="View", check_deadlock=False)


def blank(ev):
    return {"ev": ev, "prog": 0, "vm": 0, "file": 0, "text": "", "kind": "", "stamp": 0, "err": 0, "nprogs": -1,
            "lines_total": 0, "loads": [], "unloads": [], "load_errors": [], "rt_errors": [], "log_lines": []}


def validate(ctx, segs, mode, dev, strict, label, nfiles=2, nprogs=2, invariants=False):
    """TraceCounters.tla over the segments; returns (set of rejected 0-based indices, TLC result)."""
    if not segs:
        return set(), None
    lines, bounds, n = [], [], 0
    for s in segs:
        first = n + 1
        for e in s:
            lines.append(json.dumps(e))
            n += 1
        bounds.append(json.dumps({"first": first, "last": n}))
    big = max(len(s) for s in segs) + 5
    cfg = vlib.cfg_text(spec="TraceSpec", constants={
        "Progs": S(range(1, nprogs + 1)), "Files": S(range(1, nfiles + 1)), "MaxLines": big, "MaxLoads": big,
        "MaxStamp": big, "DirectInput": True, DEV: dev, "KeepLast": True, "TraceFile": "trace.ndjson",
        "SegFile": "segs.ndjson", "Mode": mode, "Strict": strict, "Guarded": not invariants},
        invariants=["Reached"] + (["Progress", "Good"] if invariants else []), view="TView", check_deadlock=False)
    r = vlib.tlc(ctx, "TraceCounters", cfg, label=label, timeout=1500, expect_violation=invariants,
                 extra_files={"trace.ndjson": "\n".join(lines) + "\n", "segs.ndjson": "\n".join(bounds) + "\n"})
    acc = {c["accept"] for c in r.cases if "accept" in c}
    r.stuck_at = max([c["at"] for c in r.cases if "at" in c] + [0])      # diagnosis runs: first event no behaviour emits
    return {k for k in range(len(segs)) if (k + 1) not in acc}, r


def drive(ctx, binary, mode, n, first=0):
    out = []
    k = first
    while k < first + n:
        recs = vlib.run_harness(ctx, binary, args=["-mode", mode, "-n", str(first + n - k), "-first", str(k)], timeout=1200)
        runs = [r for r in recs if "trace" in r]
        if not runs:
            raise vlib.InfraError("c25 driver returned nothing (%s)" % mode)
        for r in runs:
            if r["stuck"]:
                # a deadline miss is re-run once before it counts
                again = [x for x in vlib.run_harness(ctx, binary, args=["-mode", mode, "-n", "1", "-first", str(r["run"])],
                                                     timeout=600) if "trace" in x]
                if not again or again[0]["stuck"]:
                    raise vlib.InfraError("c25 driver run %s/%d did not reach quiescence within the deadline, twice" % (mode, r["run"]))
                r = again[0]
            out.append(r)
        k = runs[-1]["run"] + 1
    return out


def history(r):
    """Driver operations of a run, for the evidence and the witness."""
    ops = []
    for e in r["trace"]:
        if e["ev"] == "h.load.begin":
            ops.append("load(p%d,%s#%d)" % (e["prog"], e["kind"], e["stamp"]))
        elif e["ev"] == "h.load.end" and e["err"]:
            ops[-1] += "=error"
        elif e["ev"] == "rt.load.unchanged":
            ops[-1] += "=unchanged"
        elif e["ev"] in ("h.offer", "h.write"):
            ops.append("line(%s)" % e["kind"])
        elif e["ev"] == "rt.unload":
            ops.append("unload(p%d)" % e["prog"])
        elif e["ev"] == "vm.error":
            ops.append("runtime-error(p%d)" % e["prog"])
    return ops


def refusal_witness(r):
    """The first load refused at registration and the expvar reading that follows it."""
    tr = r["trace"]
    for k, e in enumerate(tr):
        if e["ev"] == "rt.load.add" and e["err"]:
            begin = next(tr[j] for j in range(k, -1, -1) if tr[j]["ev"] == "h.load.begin")
            obs = next((tr[j] for j in range(k, len(tr)) if tr[j]["ev"] == "h.obs"), None)
            prev = next((tr[j] for j in range(k, -1, -1) if tr[j]["ev"] == "h.obs"), None)
            return {"load": "p%d kind %s" % (begin["prog"], begin["kind"]),
                    "prog_load_errors_total_before": prev["load_errors"][begin["prog"] - 1] if prev else 0,
                    "prog_load_errors_total_after": obs["load_errors"][begin["prog"] - 1] if obs else None,
                    "history": history(r)[:12]}
    return None


def corrupt_variants(seg):
    out = []
    idx = [k for k, e in enumerate(seg) if e["ev"] == "h.obs" and e["lines_total"] > 0]
    if idx:
        bad = [dict(e) for e in seg]
        bad[idx[0]]["lines_total"] += 1
        out.append(("field", bad))
    idx = [k for k, e in enumerate(seg) if e["ev"] == "rt.line.recv"]
    if idx:
        out.append(("drop", [dict(e) for j, e in enumerate(seg) if j != idx[0]]))
    return out


def gotest_segments(ctx, pkgs, run=None, skip=None):
    path = os.path.join(ctx.sub("gotest"), "hooks.ndjson")
    cmd = ["go", "test", "-tags", "verif", "-vet=off", "-count=1"]
    if run:
        cmd += ["-run", run]
    if skip:
        cmd += ["-skip", skip]
    cmd += pkgs
    env = vlib.goenv()
    env["VERIF_TRACE"] = path
    try:
        r = subprocess.run(cmd, cwd=ctx.repo, env=env, capture_output=True, text=True, timeout=900)
    except subprocess.TimeoutExpired:
        raise vlib.InfraError("go test (trace recording) timed out")
    if "[build failed]" in r.stdout or "[setup failed]" in r.stdout or not os.path.exists(path):
        raise vlib.InfraError("go test -tags verif did not run:\n%s\n%s" % (r.stdout[-2000:], r.stderr[-2000:]))
    per_pid = {}
    for line in open(path):
        try:
            e = json.loads(line)
        except ValueError:
            continue
        per_pid.setdefault(e.get("pid", 0), []).append(e)
    segs, nfiles = [], 1
    for pid, evs in sorted(per_pid.items()):
        evs.sort(key=lambda e: e["seq"])
        files, vms, out = {}, {}, []
        for e in evs:
            if e["ev"] == "rt.load.registered":
                vms[e["vm"]] = len(vms) + 1
            if e["ev"] not in EVENT_HOOKS:
                continue
            d = blank(e["ev"])
            if "file" in e:
                d["file"] = files.setdefault(e["file"], len(files) + 1)
            if "vm" in e:
                d["vm"] = vms.get(e["vm"], 0)
            d["text"] = e.get("line", "")
            out.append(d)
        if out:
            segs.append(out)
            nfiles = max(nfiles, len(files))
    return segs, nfiles, cmd


def run(ctx):
    binary = vlib.build(ctx, "c25")
    opened = set(vlib.open_devs(ctx.prop))
    # ---- the model ----------------------------------------------------------------------------
    big = ctx.thorough
    vlib.tlc(ctx, "Counters", model_cfg([1, 2], [], 2 if big else 1, 3 if big else 2, 2, True, False),
             label="Counters-direct", timeout=1500, coverage=big)
    rb = vlib.tlc(ctx, "Counters", model_cfg([1], [1, 2], 3 if big else 2, 2 if big else 1, 1, False, False),
                  label="Counters-files", timeout=1500, coverage=True)
    if rb.zero_cov and set(rb.zero_cov) - {"Offer", "RecvDirect"}:
        raise vlib.InfraError("Counters.tla: actions never taken: %s" % rb.zero_cov)
    d = vlib.expect_dev_counterexample(ctx, "Counters", model_cfg([1, 2], [], 0, 2, 1, True, True), DEV)
    ctx.cov["dev_counterexample"] = {DEV: d.violated}

    # ---- the real code ------------------------------------------------------------------------
    n = 150 if big else 40
    runs = drive(ctx, binary, "rt", n) + drive(ctx, binary, "e2e", n)
    segs = [r["trace"] for r in runs]
    src = [{"kind": "driver", "mode": r["mode"], "run": r["run"], "seed": r["seed"]} for r in runs]
    base = next((s for s in segs if len(corrupt_variants(s)) == 2), None)
    if base is None:
        raise vlib.InfraError("no driver run suitable for the self-test")
    for kind, s in corrupt_variants(base):
        segs.append(s)
        src.append({"kind": "selftest", "variant": kind})
    rej, _ = validate(ctx, segs, "driven", False, True, "trace-corrected")
    for k, s in enumerate(src):
        if s["kind"] == "selftest" and k not in rej:
            raise vlib.InfraError("TraceCounters.tla accepted a trace with a %s (self-test): the trace spec does not bind"
                                  % ("corrupted expvar reading" if s["variant"] == "field" else "dropped event"))
    real = sorted(k for k in rej if src[k]["kind"] != "selftest")
    ctx.cov["traces_validated_against_impl"] += len(runs)
    ctx.cov["evaluations"] += sum(1 for s in segs[:len(runs)] for e in s if e["ev"] == "h.obs")
    ctx.cov["trace_events"] = sum(len(s) for s in segs)
    explained = set()
    if real and DEV in opened:
        sub = [segs[k] for k in real]
        rej2, _ = validate(ctx, sub, "driven", True, False, "trace-dev")
        explained = {real[j] for j in range(len(sub)) if j not in rej2}
    if explained:
        k = min(explained, key=lambda j: len(segs[j]))
        w = refusal_witness(runs[k]) or {"history": history(runs[k])[:12]}
        ctx.cov["known_finding_witness"] = w
        ctx.known_finding(DEV, "a load refused by Store.Add (metric registered with a different kind) returns an error but "
                               "prog_load_errors_total is not incremented: %s" % json.dumps(w, sort_keys=True))
    ctx.cov["trace_segments"] = {"driver_rt": n, "driver_e2e": n, "rejected_by_corrected_design": len(real),
                                 "explained_by_" + DEV: len(explained)}
    for k in real:
        if k in explained:
            continue
        s = src[k]
        _, dr = validate(ctx, [segs[k]], "driven", DEV in opened, DEV not in opened, "trace-diagnose", invariants=True)
        at = dr.stuck_at if dr else 0
        ev = segs[k][at - 1] if 0 < at <= len(segs[k]) else {}
        why = ("invariant %s violated" % dr.violated) if dr and dr.violated else \
            "Counters.tla allows no action for event #%d %s" % (at, json.dumps({a: b for a, b in ev.items() if b not in (0, "", [], -1)}, sort_keys=True))
        again = drive(ctx, binary, s["mode"], 1, first=s["run"])[0]
        rj, _ = validate(ctx, [again["trace"]], "driven", DEV in opened, DEV not in opened, "trace-recheck")
        if not rj:
            raise vlib.InfraError("rejection of driver run %s/%d not reproduced" % (s["mode"], s["run"]))
        ctx.violation({"kind": "driver", "mode": s["mode"], "run": s["run"], "seed": ctx.seed, "history": history(runs[k]),
                       "events": segs[k], "why": why},
                      "counters are not exact in driver run %s/%d: %s; history %s" % (s["mode"], s["run"], why,
                                                                                     " ".join(history(runs[k])[:14])))
        if len(ctx.violations) >= 3:
            break
    # ---- shutdown with unread lines pending: received by the loader = delivered by the streams --------------
    nshut = 0
    for r in runs:
        sd = r.get("shutdown")
        if not sd or ctx.violations:
            continue
        nshut += 1
        if sd["lines_total"] == sd["log_lines_sum"]:
            continue
        again = drive(ctx, binary, r["mode"], 1, first=r["run"])[0].get("shutdown") or {}
        if again.get("lines_total") == again.get("log_lines_sum"):
            raise vlib.InfraError("shutdown counter mismatch of driver run %s/%d not reproduced" % (r["mode"], r["run"]))
        ctx.violation({"kind": "driver", "mode": r["mode"], "run": r["run"], "seed": ctx.seed, "history": history(r),
                       "shutdown": sd, "why": "lines lost at shutdown"},
                      "after a graceful shutdown with %d appended lines still unread, lines_total=%d but the streams "
                      "delivered sum(log_lines_total)=%d (driver run %s/%d)"
                      % (sd["burst"], sd["lines_total"], sd["log_lines_sum"], r["mode"], r["run"]))
    ctx.cov["shutdown_runs_compared"] = nshut
    if ctx.violations:
        return

    # ---- the repository's own tests: hook events only -----------------------------------------
    if big:
        tsegs, nf, cmd = gotest_segments(ctx, ["./internal/runtime/", "./internal/mtail/", "./internal/tailer/"],
                                         skip="TestExamplePrograms|Comparison|Benchmark")
    else:
        tsegs, nf, cmd = gotest_segments(ctx, ["./internal/mtail/"],
                                         run="TestBasicTail|TestNewProg|TestProgramReload|TestMultipleLines|TestPartialLine|TestTruncated|TestLogRotation")
    if not tsegs:
        raise vlib.InfraError("the repository tests produced no hook events")
    ev0 = corrupt_variants_events(tsegs[0])
    rej3, _ = validate(ctx, tsegs + ev0, "events", False, False, "trace-events", nfiles=nf)
    if ev0 and (len(tsegs) not in rej3):
        raise vlib.InfraError("TraceCounters.tla (events mode) accepted a trace with a dropped lr.line (self-test)")
    for k in sorted(rej3):
        if k >= len(tsegs):
            continue
        ctx.violation({"kind": "gotest", "cmd": " ".join(cmd), "events": tsegs[k][:800]},
                      "hook events of the repository's tests are inconsistent (a line received that no stream delivered, "
                      "a sent without its recv, or more forwarded than read)")
    ctx.cov["traces_validated_against_impl"] += len(tsegs)
    ctx.cov["trace_segments"]["gotest"] = len(tsegs)
    ctx.cov["trace_events"] += sum(len(s) for s in tsegs)

    hs = set()
    for r in runs:
        h = history(r)
        if any(("=error" in o) or ("=unchanged" in o) or o.startswith("unload") or o.startswith("runtime-error") for o in h):
            hs.add(" ".join(h))
    ctx.cov["distinct_nontrivial"] = len(hs)
    ctx.cov["exhaustive"] = True
    ctx.cov["rule"] = ("distinct driver histories (sequence of operations with outcomes) run on the real code and validated with "
                       "their expvar readings that contain at least one failed load, unchanged load, unload or runtime error")
    ctx.cov["constants"] = {"driver_runs_per_mode": n, "programs": 2, "files": 2, "ops_per_run": "8-17",
                            "source_kinds": ["ok", "err", "bad", "shc", "shg", "missing"]}
    for r in runs[:3]:
        ctx.sample({"mode": r["mode"], "history": history(r)[:10]})
    ctx.assumptions += [
        "expvars are read when the driver has seen vm.line.end for every (line, loaded program) and every load has returned",
        "program/file names are unique per run, lines_total is read as a delta (expvars are process-global)",
        "source kinds: ok/err/bad/shc/shg/missing stand for all programs that compile / raise / fail to compile / clash at registration",
    ]


def corrupt_variants_events(seg):
    idx = [k for k, e in enumerate(seg) if e["ev"] == "lr.line"]
    if not idx:
        return []
    return [[dict(e) for j, e in enumerate(seg) if j != idx[0]]]


def replay(ctx, path):
    blob = json.load(open(path))["case"]
    opened = set(vlib.open_devs(ctx.prop))
    if blob.get("kind") == "driver":
        binary = vlib.build(ctx, "c25")
        ctx.seed = int(blob.get("seed", ctx.seed))
        r = drive(ctx, binary, blob["mode"], 1, first=blob["run"])[0]
        rj, _ = validate(ctx, [r["trace"]], "driven", DEV in opened, DEV not in opened, "trace-replay")
        sd = r.get("shutdown") or {}
        if rj:
            ctx.violation(blob, "reproduced: driver run rejected by TraceCounters.tla")
        elif sd.get("lines_total") != sd.get("log_lines_sum"):
            ctx.violation(blob, "reproduced: lines_total=%s, sum(log_lines_total)=%s after shutdown"
                          % (sd.get("lines_total"), sd.get("log_lines_sum")))
        else:
            print("replay: the run is accepted (not reproduced)")
    else:
        print("replay: re-run the recorded go test command: %s" % blob.get("cmd"))
