"""C08 - Distinct label tuples always name distinct data.

spec/MetricOps.tla models buildLabelValueKey character by character (KeyWith) with
the deviation DEV_BackslashNotEscaped (the code escapes '-' but not the escape
character) and, as the ideal layer, a decoder: the corrected encoding has a left
inverse on every tuple (RoundTrip), hence is injective.  TLC enumerates every
tuple over {a, -, \\, 0xff} for arities 1-4 and prints it with both keys; the Go
harness computes the REAL key of every tuple, looks for distinct tuples with one
real key, and drives a real Metric with every colliding pair and a seeded sample
of other pairs (lookup, update, expire, remove one - watch the other).  The
operational form (spec/Metric.tla: OthersUntouched, DistinctData) is checked on
a universe containing a colliding pair and replayed as in C09.
"""
import json
import random

import metricmodel as mm
import vlib

LEVEL = "model_checking"
META = {
    "text": "TLC enumerates all label tuples over {a,-,\\,0xff} (arity 1-4, labels up to 4/3/2/1 characters; thorough up to 194k "
            "tuples per arity), proves the corrected key encoding has a left inverse on each and exhibits the collision of the "
            "code's encoding; the real buildLabelValueKey is evaluated on every enumerated tuple, all real collisions and a "
            "seeded sample of other pairs are driven through a real Metric (lookup/update/expire/remove one, watch the other), "
            "and the state graph of Metric.tla over a universe with a colliding pair is replayed transition by transition.",
    "note": "Alphabet of 4 characters (plain, separator, escape, non-UTF-8 byte) and bounded label length; other bytes behave "
            "like 'a' in buildLabelValueKey.",
    "technique": "TLA+ spec + TLC exhaustive enumeration and state graph, replayed into real buildLabelValueKey / metrics.Metric (direction A)",
    "design_ref": "DESIGN.md 5/C08, Appendix A.3",
}
DEV = "DEV_BackslashNotEscaped"
ALPHA = ("a", "-", "\\", "F")
# universe of the operational model: the first two collide under the code's encoding
TUPLES = [["\\", "-"], ["-\\", ""], ["a", "b"]]
BAD = [["a"], ["a", "b", "c"]]


def show(t):
    """model tuple (list of lists of characters) -> list of Go-quoted strings"""
    return ['"%s"' % "".join({"\\": "\\\\", "F": "\\xff"}.get(c, c) for c in s) for s in t]


def key_stage(ctx, binary, domains):
    mc = mm.mc_module(TUPLES, BAD, alphabet=ALPHA, keydomains=domains)
    cases = []
    r = vlib.tlc(ctx, "MCMetric", mm.cfg("check", invariants=["RoundTrip", "EmitKey"], init="KeyInitOne", next_="KeyNext"),
                 extra_files={"MCMetric.tla": mc}, case_sink=cases.append, label="Metric-keys", timeout=2400)
    want = sum(sum(len(ALPHA) ** k for k in range(n + 1)) ** a for a, n in domains)
    if len(cases) != want or r.distinct != want:
        raise vlib.InfraError("TLC enumerated %d tuples, the domain has %d" % (len(cases), want))
    recs = vlib.run_harness(ctx, binary, args=["-mode=keys"], cases=cases, timeout=1800)
    summ = [x for x in recs if x.get("summary")]
    if not summ or summ[0]["cases"] != len(cases):
        raise vlib.InfraError("key harness did not process all tuples")
    summ = summ[0]
    ctx.cov["evaluations"] += len(cases)
    k1 = {mm.dumps(c["t"]): c["k1"] for c in cases}
    groups = sorted(sorted([json.loads(t) if isinstance(t, str) else t for t in x["tuples"]], key=mm.dumps)
                    for x in recs if x.get("collision"))
    return cases, summ, groups, k1


def pair_stage(ctx, binary, pairs, k1, devs, what):
    """the statement of C08 on concrete pairs, on a real Metric"""
    if not pairs:
        return 0, []
    recs = vlib.run_harness(ctx, binary, args=["-mode=pairs"], cases=[{"a": a, "b": b} for a, b in pairs], timeout=1800)
    summ = [x for x in recs if x.get("summary")]
    if not summ or summ[0]["cases"] != len(pairs):
        raise vlib.InfraError("pair harness did not process all pairs (%s)" % what)
    ctx.cov["traces_validated_against_impl"] += len(pairs)
    explained = []
    bad = [r for r in recs if r.get("mismatch")]
    if bad:   # every pair runs on a fresh metric: re-execute the failing ones alone before believing them
        bad = [x for x in vlib.run_harness(ctx, binary, args=["-mode=pairs"], cases=[r["case"] for r in bad]) if x.get("mismatch")]
    for r in bad:
        a, b = r["case"]["a"], r["case"]["b"]
        ka, kb = k1.get(mm.dumps(a)), k1.get(mm.dumps(b))
        if DEV in devs and ka is not None and ka == kb:
            explained.append((a, b, r["why"]))       # the model with the open deviation gives both tuples one key
        else:
            ctx.violation({"kind": "pair", "case": r["case"], "why": r["why"], "tuples": [show(a), show(b)]},
                          "label tuples %s and %s: %s" % (show(a), show(b), r["why"]))
    return len(pairs), explained


def graph_stage(ctx, binary, devs):
    mc = mm.mc_module(TUPLES, BAD, vtypes=("Int",))
    invs = mm.STATE_INVS + ["StepOK", "Emit"]
    g0 = mm.Graph()
    r = vlib.tlc(ctx, "MCMetric", mm.cfg("graph", invariants=invs, view="GraphView"), extra_files={"MCMetric.tla": mc},
                 case_sink=g0.add, label="Metric-graph-collide", timeout=1500)
    g0.check_closed()
    if len(g0.edges) != r.distinct:
        raise vlib.InfraError("TLC found %d states but printed %d" % (r.distinct, len(g0.edges)))
    g1 = None
    if DEV in devs:
        # the same universe with the open deviation: TLC must refute the C08 invariants ...
        vlib.expect_dev_counterexample(ctx, "MCMetric", mm.cfg("check", dev=True, invariants=mm.STATE_INVS + mm.STEP_INVS, view="View"),
                                       DEV, extra_files={"MCMetric.tla": mc})
        # ... and its graph is what the real code is expected to follow while the finding is open
        g1 = mm.Graph()
        vlib.tlc(ctx, "MCMetric", mm.cfg("graph", dev=True, invariants=["Emit"], view="GraphView"), extra_files={"MCMetric.tla": mc},
                 case_sink=g1.add, label="Metric-graph-collide-dev", timeout=1500)
        g1.check_closed()
    hdr = mm.header(TUPLES, BAD, 2)
    allt = TUPLES + BAD

    def describe(c):
        return {"op": c["op"], "labels": show(allt[c["t"] - 1]) if c["t"] else None, "update": c["u"], "ts": c["ts"], "expiry_h": c["e"]}

    walks = g0.cover("Int")
    lines = [g0.walk_json("Int", w) for w in walks]
    rnd = random.Random(ctx.seed * 7919)
    lines += [g0.walk_json("Int", g0.random_walk("Int", rnd, 150)) for _ in range(40)]
    ctx.sample({"walk": json.loads(lines[len(lines) // 3])["walk"][:5]}, limit=3)
    _n, _s, explained = mm.replay_walks(ctx, binary, ["-mode=walk"], hdr, lines, "graph walks over a colliding universe",
                                        dev_graph=(lambda: g1), describe=describe)
    n_dev_ok = 0
    if g1 is not None:
        # the deviation model, transition by transition, on the real code; a walk it does not
        # predict must be one the corrected model predicts (the defect is gone), else violation
        lines1 = [g1.walk_json("Int", w) for w in g1.cover("Int")]
        n1, _s, expl0 = mm.replay_walks(ctx, binary, ["-mode=walk"], hdr, lines1, "graph walks of the model with " + DEV,
                                        dev_graph=(lambda: g0), describe=describe)
        n_dev_ok = n1 - len(expl0)
    return g0.nedges, explained, n_dev_ok


def run(ctx):
    binary = vlib.build(ctx, "c08")
    devs = vlib.open_devs(ctx.prop)
    domains = ((1, 5), (2, 4), (3, 2), (4, 2)) if ctx.thorough else ((1, 4), (2, 3), (3, 2), (4, 1))
    cases, summ, groups, k1 = key_stage(ctx, binary, domains)
    n = len(cases)
    binding = ("corrected" if summ["equal_corrected"] == n else "deviation" if summ["equal_deviation"] == n else "none")
    if binding == "none":
        ctx.assumptions.append("the real buildLabelValueKey equals neither the corrected nor the deviation encoding of the model on "
                               "%d of %d tuples (first: %s); the verdict rests on the real function's collisions over the enumerated "
                               "domain and on the pair protocol" % (summ["equal_neither"], n, json.dumps(summ["first_neither"])))
    # model: corrected encoding injective (RoundTrip held for every tuple above); the deviation collides
    wit = vlib.open_finding(ctx.prop, DEV)
    if DEV in devs and ctx.thorough:     # key-level witness (quick relies on the operational counterexample below)
        small = mm.mc_module(TUPLES, BAD, alphabet=("a", "-", "\\"), keydomains=((2, 2),))
        vlib.expect_dev_counterexample(ctx, "MCMetric", mm.cfg("check", dev=True, invariants=["PairInjective"], init="KeyInitPair", next_="KeyNext"),
                                       DEV, extra_files={"MCMetric.tla": small})
    if ctx.thorough:
        card = mm.mc_module(TUPLES, BAD, alphabet=ALPHA, keydomains=((1, 4), (2, 3), (3, 2)))
        vlib.tlc(ctx, "MCMetric", mm.cfg("check", invariants=["Injective"], init="KeyInitAll", next_="KeyNext"),
                 extra_files={"MCMetric.tla": card}, label="Metric-injective-card", timeout=1800)
        try:
            r = vlib.tlc(ctx, "MCMetric", mm.cfg("check", dev=True, invariants=["Injective"], init="KeyInitAll", next_="KeyNext"),
                         extra_files={"MCMetric.tla": card}, label="Metric-injective-card-dev", expect_violation=True, timeout=1800)
            refuted = bool(r.violated)
        except vlib.InfraError as e:
            # an invariant that is false in the (single) initial state is reported by TLC in these words
            refuted = "The invariant of Injective is equal to FALSE" in str(e)
            if not refuted:
                raise
        if not refuted:
            raise vlib.InfraError("Injective holds with %s on: deviation mis-modelled" % DEV)
    # real collisions -> pairs on a real metric; plus the recorded witness and a seeded sample of other pairs
    pairs = []
    for g in groups[:400]:
        for other in g[1:3]:
            pairs.append((g[0], other))
    if wit and "tuple_a" in wit.get("witness", {}):
        pairs.append(([list(s) for s in wit["witness"]["tuple_a"]], [list(s) for s in wit["witness"]["tuple_b"]]))
    rnd = random.Random(ctx.seed)
    by_arity = {}
    for c in cases:
        by_arity.setdefault(len(c["t"]), []).append(c["t"])
    for ar, ts in sorted(by_arity.items()):
        for _ in range(2000 if ctx.thorough else 300):
            pairs.append((rnd.choice(ts), rnd.choice(ts)))
        for t in rnd.sample(ts, min(len(ts), 200)):
            pairs.append((t, t))
    npairs, explained = pair_stage(ctx, binary, pairs, k1, devs, "collisions + sample")
    nedges, gexpl, n_dev_ok = graph_stage(ctx, binary, devs)
    if explained or gexpl:
        w = wit["witness"] if wit else {}
        ctx.known_finding(DEV, "buildLabelValueKey does not escape '\\': %d groups of distinct tuples share a key on the enumerated "
                          "domain of %d tuples, e.g. %s and %s address one datum (witness %s); %d walks of the operational model "
                          "leave the corrected design exactly as the deviation predicts" % (
                              summ["collision_groups"], n, show(explained[0][0]) if explained else "-",
                              show(explained[0][1]) if explained else "-", json.dumps(w), len(gexpl)))
    elif summ["collision_groups"] and not ctx.violations:
        raise vlib.InfraError("real key collisions found but no pair reproduced on a real metric")
    ctx.cov["distinct_nontrivial"] = sum(1 for c in cases if any(("-" in s or "\\" in s) for s in c["t"])) + len(groups)
    ctx.cov["exhaustive"] = True
    ctx.cov["rule"] = ("every tuple of the domains %s over the alphabet {a,-,\\,0xff} is enumerated by TLC and keyed by the real "
                       "buildLabelValueKey; non-trivial = tuples containing the separator or the escape character, plus groups of "
                       "distinct tuples the real function maps to one key (%d); %d pairs driven through a real Metric; %d transitions "
                       "of the operational graph replayed" % (list(domains), len(groups), npairs, nedges))
    ctx.cov["constants"] = {"alphabet": list(ALPHA), "domains_arity_maxlen": [list(d) for d in domains],
                            "operational_universe": [show(t) for t in TUPLES], "key_model_binding": binding,
                            "real_collision_groups": summ["collision_groups"], "dev_graph_walks_followed_by_real_code": n_dev_ok}
    ctx.sample({"tuple": show(cases[len(cases) // 2]["t"]), "model_key_corrected": "".join(cases[len(cases) // 2]["k0"])})
    if groups:
        ctx.sample({"real_collision": [show(t) for t in groups[0][:3]]})
    ctx.assumptions += [
        "model characters: a - \\ are themselves, F is the byte 0xff; any byte other than '-' and '\\' is treated like 'a' by buildLabelValueKey",
        "label length bounded per arity as listed in constants; collisions of the code's encoding need only 1-2 characters per label",
    ]


def replay(ctx, path):
    binary = vlib.build(ctx, "c08")
    blob = json.load(open(path))["case"]
    if blob.get("kind") == "pair":
        for r in vlib.run_harness(ctx, binary, args=["-mode=pairs"], cases=[blob["case"]]):
            if r.get("mismatch"):
                ctx.violation(blob, r["why"])
        return
    for r in vlib.run_harness(ctx, binary, args=["-mode=walk"], cases=[blob["universe"], blob["case"]]):
        if r.get("mismatch"):
            ctx.violation(blob, r["why"])
