"""C01 - Compiled programs compute what the language reference says."""
import json
import vlib
import langcheck

LEVEL = "exploration"
META = {
    "text": "spec/MtailLang.tla is the reference semantics (Exec/Eval over an AST), spec/MtailGen.tla the typed grammar as a seeded generator; "
            "TLC generates programs and lines, computes the expected metrics after every line, and each program is rendered (fully and "
            "minimally parenthesised), compiled by the real compiler and run on the real VM; every metric, label set, value, timestamp "
            "class, expiry mark and runtime-error flag is compared after every line.",
    "note": "Exploration of an infinite program space by sampling; ints beyond 1e9 and non-dyadic floats are outside the model; the "
            "pattern templates are checked against Go regexp for every (pattern,line) used.",
    "technique": "TLA+ reference semantics + TLC-generated programs replayed into the real compiler and VM (direction A)",
    "design_ref": "DESIGN.md 5/C01",
}


def run(ctx):
    binary = vlib.build(ctx, "lang")
    n = 4000 if ctx.thorough else 500
    langcheck.run_witnesses(ctx, binary)
    langcheck.run_profile(ctx, binary, "lang", ctx.seed * 100000, n)
    ctx.cov["rule"] = ("programs = MtailGen!GenCase(seed) for consecutive seeds (typed grammar: declarations, pattern conditions with typed "
                       "captures, nested/else/otherwise, decorators, all binary operators, builtins, del/stop); evaluations = (program,line) "
                       "pairs compared in 2 rendering modes; non-trivial = some line changed a metric or raised a runtime error")
    ctx.assumptions += ["ints stay below 1e9 and floats are dyadic rationals (cases that leave this range are truncated at that line)",
                        "regex semantics are those of Go regexp for the 8 pattern templates, verified per (pattern,line)"]


def replay(ctx, path):
    binary = vlib.build(ctx, "lang")
    rc = json.load(open(path))["case"]
    cases = langcheck.generate(ctx, rc["profile"], seedset=[rc["seed"]])
    by = langcheck.replay(ctx, binary, cases, rc.get("opt", "on"), rc.get("extra"))
    import langlib
    out, _, _ = langlib.compare_case(cases[0], by[rc["seed"]])
    if out:
        ctx.violation(rc, out[0][:300])
