"""C01 - Compiled programs compute what the language reference says."""
import json
import vlib
import langcheck

LEVEL = "exploration"
COMPILES_PROGRAMS = True      # check reports mlang.Compile's long-lived-compiler comparison (vlib.report_compiler_reuse)
META = {
    "text": "spec/MtailLang.tla is the reference semantics (Exec/Eval over an AST), spec/MtailGen.tla the typed grammar as a seeded generator; "
            "TLC generates programs and lines, computes the expected metrics after every line, and each program is rendered (fully and "
            "minimally parenthesised), compiled by the real compiler and run on the real VM; every metric, label set, value, timestamp "
            "class, expiry mark and runtime-error flag is compared after every line.",
    "note": "Exploration of an infinite program space by sampling; ints beyond 1e9 and non-dyadic floats are outside MtailLang.tla (the 64-bit "
            "edges are covered separately by the symbolic points of spec/IntExact.tla: comparisons, stores, ++/--, +-1); the "
            "pattern templates are checked against Go regexp for every (pattern,line) used.",
    "technique": "TLA+ reference semantics + TLC-generated programs replayed into the real compiler and VM (direction A)",
    "design_ref": "DESIGN.md 5/C01",
}


def intexact_source(c):
    """the program of one case of spec/IntExact.tla"""
    L = "$1" if c["l"] == "cap" else "ga"
    R = "$2" if c["r"] == "cap" else "gb"
    body = {"cmp": "  %s %s %s {\n    hit++\n  }\n" % (L, c["op"], R), "store": "", "inc": "  ga++\n", "dec": "  ga--\n",
            "addk": "  ga = $1 + 1\n", "subk": "  ga = $1 - 1\n"}[c["kind"]]
    return "%sgauge ga\ngauge gb\n/^(-?\\d+) (-?\\d+)$/ {\n  ga = $1\n  gb = $2\n%s}\n" % ("counter hit\n" if c["kind"] == "cmp" else "", body)


def intexact(ctx, binary):
    """Integers at the 64-bit edges (symbolic points of spec/IntExact.tla): comparisons through icmp and the generic cmp,
    stores, ++/--, +1/-1 are exact."""
    r = vlib.tlc(ctx, "IntExact", vlib.cfg_text(spec="Spec", constants={"EmitCases": True}, invariants=["Trichotomy", "Emit"]), label="IntExact")
    cases = r.cases
    recs = [x for x in vlib.run_harness(ctx, binary, cases=[{"seed": i + 1, "src": intexact_source(c), "rawlines": [c["a"] + " " + c["b"]]}
                                                            for i, c in enumerate(cases)], timeout=1200) if "runs" in x]
    if len(recs) != len(cases):
        raise vlib.InfraError("lang harness processed %d of %d IntExact cases" % (len(recs), len(cases)))

    def judge(c, rec):
        bad = []
        for run in rec["runs"]:
            tag = "optimiser %s" % ("on" if run["opt"] else "off")
            if not run["accepted"]:
                bad.append("%s: rejected: %s" % (tag, (run.get("errors") or run.get("panic") or "")[:160]))
                continue
            ln = run["lines"][0]
            got = {m["name"]: (str(m["lvs"][0]["i"]) if m["lvs"] else None) for m in ln["metrics"]}
            if ln["err"]:
                bad.append("%s: runtime error %s" % (tag, ln.get("errmsg", "")[:120]))
            elif got.get("ga") != c["want"]["ga"] or (c["kind"] == "cmp" and got.get("hit") != str(c["want"]["hit"])):
                bad.append("%s: ga=%s hit=%s, IntExact.tla ga=%s hit=%s" % (tag, got.get("ga"), got.get("hit"), c["want"]["ga"], c["want"]["hit"]))
        return bad
    for c, rec in zip(cases, recs):
        ctx.cov["evaluations"] += 1
        ctx.cov["traces_validated_against_impl"] += 1
        bad = judge(c, rec)
        if bad and not ctx.enough():
            src = intexact_source(c)
            again = [x for x in vlib.run_harness(ctx, binary, cases=[{"seed": 1, "src": src, "rawlines": [c["a"] + " " + c["b"]]}]) if "runs" in x][0]
            bad2 = judge(c, again)
            if bad2:
                ctx.violation({"kind": "intexact", "case": c, "source": src, "line": c["a"] + " " + c["b"], "mismatches": bad2},
                              "64-bit integer %s on line %r (%s %s): %s; program %r" % (
                                  c["kind"] + (" " + c["op"] if c["op"] else ""), c["a"] + " " + c["b"], c["an"], c["bn"], bad2[0], src[-90:]))
    ctx.cov["intexact_cases"] = len(cases)


def run(ctx):
    binary = vlib.build(ctx, "lang")
    n = 4000 if ctx.thorough else 500
    langcheck.run_witnesses(ctx, binary)
    intexact(ctx, binary)
    langcheck.run_profile(ctx, binary, "lang", ctx.seed * 100000, n)
    # match sites behind short-circuits, one pattern text used at several sites (the capture storage is per regexp index)
    langcheck.run_profile(ctx, binary, "leak", ctx.seed * 100000 + 35000, 600 if ctx.thorough else 150)
    ctx.cov["rule"] = ("programs = MtailGen!GenCase(seed) for consecutive seeds (typed grammar: declarations, pattern conditions with typed "
                       "captures, nested/else/otherwise, decorators, all binary operators, builtins, del/stop); evaluations = (program,line) "
                       "pairs compared in 2 rendering modes; non-trivial = some line changed a metric or raised a runtime error")
    ctx.assumptions += ["ints stay below 1e9 and floats are dyadic rationals (cases that leave this range are truncated at that line)",
                        "regex semantics are those of Go regexp for the 8 pattern templates, verified per (pattern,line)"]


def replay(ctx, path):
    binary = vlib.build(ctx, "lang")
    rc = json.load(open(path))["case"]
    if rc.get("kind") == "intexact":
        rec = [x for x in vlib.run_harness(ctx, binary, cases=[{"seed": 1, "src": rc["source"], "rawlines": [rc["line"]]}]) if "runs" in x][0]
        for run in rec["runs"]:
            ln = run["lines"][0] if run["accepted"] else None
            got = {m["name"]: (str(m["lvs"][0]["i"]) if m["lvs"] else None) for m in ln["metrics"]} if ln else {}
            print("replay: optimiser %s: accepted=%s err=%s ga=%s hit=%s (IntExact.tla: %s)" % (run["opt"], run["accepted"], ln and ln["err"], got.get("ga"), got.get("hit"), rc["case"]["want"]))
            if not ln or ln["err"] or got.get("ga") != rc["case"]["want"]["ga"] or (rc["case"]["kind"] == "cmp" and got.get("hit") != str(rc["case"]["want"]["hit"])):
                ctx.violation(rc, "reproduced: " + rc["mismatches"][0][:200])
                break
        return
    cases = langcheck.generate(ctx, rc["profile"], seedset=[rc["seed"]])
    by = langcheck.replay(ctx, binary, cases, rc.get("opt", "on"), rc.get("extra"))
    import langlib
    out, _, _ = langlib.compare_case(cases[0], by[rc["seed"]])
    if out:
        ctx.violation(rc, out[0][:300])
