"""C11 - Concurrent processing, export, reload and GC are race-free.

spec/Concurrency.tla: the goroutines that share a metric (VMs, Store.Gc, Store.Add
on reload, Prometheus/varz/graphite/JSON exporters) as interleaved atomic steps
over explicit locks (searchMu, insertMu, the metric's RWMutex) and shared locations
(LabelValues+index, LabelValue.Expiry, Store.Metrics, the atomic datum).  TLC
exhausts all interleavings of every pair of actors (and two triples): NoRace (no
two enabled conflicting accesses), NoLostIncrement, ExportedValueExisted, no lock
cycle.  The deviations DEV_GcReadsLabelValuesUnlocked,
DEV_AddIteratesLabelValuesUnlocked, DEV_JSONMarshalsMetricUnlocked reproduce the
unguarded reads of the code; with them on TLC prints which (actor, site) pairs race.

Binding: the REAL actors run concurrently in a -race build (harness
internal/verif/c11) with seeded scheduling perturbation; every race-detector
report is mapped to (actor, site) x (actor, site) by the function names on its
stacks.  The corrected model predicts no race at all, so every report is a
deviation of the code: explained by an open deviation whose model predicts exactly
that pair => KNOWN-FINDING; anything else => VIOLATION.  The atomicity half is
direction B: a non-instrumented run logs increment and export events and
spec/TraceConcurrency.tla validates the log.
"""
import glob
import itertools
import json
import os
import re

import covutil
import vlib

LEVEL = "model_checking"
META = {
    "text": "TLC exhausts spec/Concurrency.tla (lock-annotated steps of VM lines, Store.Gc, Store.Add, five exporters over searchMu/"
            "insertMu/metric RWMutex) for all 36 actor pairs and two triples: NoRace, NoLostIncrement, ExportedValueExisted, no lock "
            "cycle; the real actors run concurrently under the Go race detector with seeded perturbation for every pair, each report is "
            "mapped to the model's (actor, site) pairs and must be predicted by an open deviation; increment/export event logs of real "
            "runs are validated by TraceConcurrency.tla; after every concurrent run each metric must be a map again (slice and index name "
            "the same label values), also after long runs of the removing actors (del lines against Gc's limit eviction).",
    "note": "The race detector only reports races that occur in the schedules run (no false positives, possible misses); the model's "
            "exhaustiveness is over the lock protocol as modelled, the real schedules are sampled. The push exporters (collectd/graphite/"
            "statsd) are run through writeSocketMetrics with a discarding connection, not through a socket.",
    "technique": "TLA+ lockset model exhaustively checked by TLC + real goroutines under go build -race with seeded perturbation, reports classified against the model; TLC trace validation of atomicity logs (direction B)",
    "design_ref": "DESIGN.md 5/C11",
}
ACTORS = ["vm", "vm2", "gc", "reload", "prom", "varz", "graphite", "json", "push"]
DEVS = ["DEV_GcReadsLabelValuesUnlocked", "DEV_AddIteratesLabelValuesUnlocked", "DEV_JSONMarshalsMetricUnlocked"]
INVS = ["LockOK", "NoRace", "NoLostIncrement", "ExportedValueExisted"]
PAIRS = [list(p) for p in itertools.combinations(ACTORS, 2)]
TRIPLES = [["vm", "vm2", "prom"], ["vm", "gc", "json"]]


def sset(xs):
    return "={" + ", ".join('"%s"' % x for x in xs) + "}"


def groups(gs):
    return "={" + ", ".join("{" + ", ".join('"%s"' % x for x in g) + "}" for g in gs) + "}"


def cfg(gs, devs=(), ninc=2, emit=False, invs=INVS, nonatomic=False):
    c = {"Actors": sset(ACTORS), "Groups": groups(gs), "NInc": ninc, "EmitCases": emit, "DEV_IncNotAtomic": nonatomic}
    for d in DEVS:
        c[d] = d in devs
    return vlib.cfg_text(spec="Spec", constants=c, invariants=list(invs) + (["Emit"] if emit else []), check_deadlock=True)


def norm_actor(a):
    return "vm" if a == "vm2" else a


# A new LabelValue (its Labels slice is built by the VM's Dload, the struct by GetDatum) becomes
# shared when AppendLabelValue publishes it under the metric's lock; a reader that does not take
# the lock races with any of these writes.  They are one site for the comparison with the model.
CREATE = "Metric.GetDatum/AppendLabelValue (create label value)"


def canon_site(s):
    return CREATE if s in ("Metric.GetDatum", "Metric.AppendLabelValue", "VM.execute") else s


def model_table(ctx, devs, label):
    """the (actor, site) pairs the model with `devs` on says can race"""
    r = vlib.tlc(ctx, "Concurrency", cfg(PAIRS, devs=devs, emit=True, invs=["LockOK"]), label=label)
    t = set()
    for c in r.cases:
        for x in c["races"]:
            t.add(frozenset([(norm_actor(x["a"]), canon_site(x["sa"])), (norm_actor(x["b"]), canon_site(x["sb"]))]))
    return t


# ---------------------------------------------------------------------------
# race-detector reports
SITES = [  # first matching frame, scanning the access stack from the top, names the site
    ("metrics.(*Metric).RemoveOldestDatum", "Metric.RemoveOldestDatum"),
    ("metrics.(*Metric).RemoveDatum", "Metric.RemoveDatum"),
    ("metrics.(*Metric).AppendLabelValue", "Metric.AppendLabelValue"),
    ("metrics.(*Metric).ExpireDatum", "Metric.ExpireDatum"),
    ("metrics.(*Metric).GetDatum", "Metric.GetDatum"),
    ("metrics.(*Metric).EmitLabelSets", "Metric.EmitLabelSets"),
    ("metrics.(*Store).Gc", "Store.Gc"),
    ("metrics.(*Store).Add", "Store.Add"),
    ("metrics.(*Store).MarshalJSON", "json.Marshal"),
    ("metrics.(*Store).WriteMetrics", "json.Marshal"),
    ("vm.(*VM).execute", "VM.execute"),
]
ACTOR_FRAMES = [
    ("main.actorVM2", "vm2"), ("main.actorVM", "vm"), ("main.actorGc", "gc"), ("main.actorReload", "reload"),
    ("main.actorProm", "prom"), ("main.actorVarz", "varz"), ("main.actorGraphite", "graphite"), ("main.actorJSON", "json"),
    ("main.actorPush", "push"), ("exporter.(*Exporter).writeSocketMetrics", "push"),
    ("exporter.(*Exporter).Collect", "prom"), ("exporter.(*Exporter).HandleVarz", "varz"),
    ("exporter.(*Exporter).HandleGraphite", "graphite"), ("exporter.(*Exporter).HandleJSON", "json"),
    ("metrics.(*Store).Gc", "gc"), ("metrics.(*Store).Add", "reload"), ("vm.(*VM).", "vm"),
]


def parse_reports(text):
    reps = []
    for block in text.split("WARNING: DATA RACE")[1:]:
        block = block.split("==================")[0]
        secs, cur = [], None
        for ln in block.splitlines():
            m = re.match(r"^(Write|Read|Previous write|Previous read|Atomic|Previous atomic)[^\n]* by (?:goroutine (\d+)|main goroutine)", ln.strip())
            g = re.match(r"^Goroutine (\d+) \(", ln.strip())
            if m:
                cur = {"kind": m.group(1), "gid": m.group(2) or "main", "frames": []}
                secs.append(cur)
            elif g:
                cur = {"kind": "created", "gid": g.group(1), "frames": []}
                secs.append(cur)
            elif cur is not None and ln.startswith("  ") and not ln.startswith("      ") and ln.strip():
                cur["frames"].append(ln.strip())
        acc = [s for s in secs if s["kind"] != "created"]
        created = {s["gid"]: s["frames"] for s in secs if s["kind"] == "created"}
        if len(acc) != 2:
            reps.append({"raw": block[:3000], "sides": None})
            continue
        sides = []
        for s in acc:
            stack = s["frames"]
            whole = stack + created.get(s["gid"], [])
            site = next((name for fr in stack for pat, name in SITES if pat in fr), None)
            actor = next((a for fr in whole for pat, a in ACTOR_FRAMES if pat in fr), None)
            # main.actorX on the stack wins over the generic package-level patterns
            for fr in whole:
                for pat, a in ACTOR_FRAMES[:9]:
                    if pat in fr:
                        actor = a
                        break
            sides.append({"kind": s["kind"], "actor": actor, "site": site, "top": stack[:6]})
        reps.append({"raw": block[:3000], "sides": sides})
    return reps


def race_stage(ctx, binary, table_devs, devs):
    iters = 12 if ctx.thorough else 3
    logbase = os.path.join(ctx.sub("race"), "race")
    cases = [{"group": g, "iters": iters} for g in PAIRS + TRIPLES + [ACTORS]]
    # long runs of the actors that REMOVE label values (del lines, Gc's limit eviction) and of those that add them
    cases += [{"group": g, "iters": 2 if ctx.thorough else 1, "hammer": True} for g in (["vm", "gc"], ["vm", "vm2", "gc"], ["vm", "gc", "reload"])]
    out = vlib.run_harness(ctx, binary, args=["-mode=race"], cases=cases, timeout=2400,
                           env={"GORACE": "halt_on_error=0 exitcode=0 log_path=%s" % logbase})
    panics = [r for r in out if "panic" in r]
    text = ""
    for fn in glob.glob(logbase + ".*"):
        with open(fn, errors="replace") as f:
            text += f.read()
    reps = parse_reports(text)
    seen, explained, unknown = {}, {}, []
    for r in reps:
        if not r["sides"] or any(s["actor"] is None or s["site"] is None for s in r["sides"]):
            unknown.append(r)
            continue
        k = frozenset((norm_actor(s["actor"]), canon_site(s["site"])) for s in r["sides"])
        seen.setdefault(k, r)
    for k, r in seen.items():
        if k in table_devs:
            explained[k] = r
        else:
            unknown.append(r)
    return reps, seen, explained, unknown, panics


DEV_SITES = {"DEV_GcReadsLabelValuesUnlocked": {"Store.Gc", "Metric.RemoveOldestDatum"},
             "DEV_AddIteratesLabelValuesUnlocked": {"Store.Add"},
             "DEV_JSONMarshalsMetricUnlocked": {"json.Marshal"}}


def atomic_stage(ctx, binary):
    ncases = 4 if ctx.thorough else 2
    incs = 40 if ctx.thorough else 25
    exports = 10 if ctx.thorough else 8        # per exporter and trace (the hidden instants multiply TLC's states)
    gs = [["vm", "vm2", "prom", "varz", "json", "gc", "reload"], ["vm", "vm2", "prom", "json"]]
    cases = [{"group": gs[k % len(gs)], "incs": incs, "iters": exports} for k in range(ncases)]
    # two VMs hammering one datum: only totals are logged (no increment may be lost)
    cases += [{"group": ["vm", "vm2"], "incs": 60000 if ctx.thorough else 15000, "hammer": True}] * (3 if ctx.thorough else 1)
    ncases = len(cases)
    # same binary; its race reports are not wanted here (the event log synchronises the actors)
    recs = vlib.run_harness(ctx, binary, args=["-mode=atomic"], cases=cases, timeout=1200,
                            env={"GORACE": "halt_on_error=0 exitcode=0 log_path=%s" % os.path.join(ctx.sub("atomic-race-log"), "ignored")})
    traces, cur = [], []
    for r in recs:
        if r.get("trace_end"):
            traces.append(sorted(cur, key=lambda e: e["seq"]))
            cur = []
        elif "ev" in r:
            cur.append(r)
    if len(traces) != ncases:
        raise vlib.InfraError("atomicity harness produced %d of %d traces" % (len(traces), ncases))
    out = validate_traces(ctx, traces, "atomic")
    # self-test of the trace specification: a lost increment and a never-existing exported value must be rejected
    # the lost increment on the shortest log (a hammer trace: bulk, bulk, final); the impossible export on the first log
    t = [dict(e) for e in traces[0]]
    h = [dict(e) for e in traces[-1]]
    bad1 = [dict(e, v=e["v"] - 1) if e["ev"] == "final" else e for e in h]
    k = next((j for j, e in enumerate(t) if e["ev"] == "exp.value"), None)
    bad2 = [dict(e, v=e["v"] + 2 * incs + 5) if j == k else e for j, e in enumerate(t)][: k + 2] if k is not None else None
    for name, b in (("lost increment", bad1), ("impossible export", bad2)):
        if b is None:
            continue
        hw, ln = validate_traces(ctx, [b], "selftest", want_accept=False)
        if hw == ln:
            raise vlib.InfraError("TraceConcurrency.tla accepted a corrupted log (%s): the trace check is vacuous" % name)
    return traces, out


def validate_traces(ctx, traces, label, want_accept=True):
    path = os.path.join(ctx.sub("trace-" + label), "trace.ndjson")
    n = 0
    with open(path, "w") as f:
        for t in traces:
            for e in t:
                f.write(json.dumps({"ev": e["ev"], "a": e["a"], "v": e["v"]}) + "\n")
                n += 1
            f.write(json.dumps({"ev": "reset", "a": "harness", "v": 0}) + "\n")
            n += 1
    c = vlib.cfg_text(spec="Spec", constants={"TraceFile": path}, invariants=["HighWater"], postcondition="Post")
    r = vlib.tlc(ctx, "TraceConcurrency", c, workers=1, label="TraceConcurrency-" + label, timeout=1200)
    if not r.cases:
        raise vlib.InfraError("TraceConcurrency printed no high-water mark")
    hw, ln = r.cases[-1]["hw"], r.cases[-1]["len"]
    if ln != n:
        raise vlib.InfraError("trace length mismatch %d vs %d" % (ln, n))
    return hw, ln


def run(ctx):
    binary = vlib.build(ctx, "c11", race=True)
    devs = vlib.open_devs(ctx.prop)
    # ---- model: corrected design race-free for every pair; atomicity properties; no lock cycle
    r = vlib.tlc(ctx, "Concurrency", cfg(PAIRS + TRIPLES, ninc=3 if ctx.thorough else 2), label="Concurrency-corrected",
                 coverage=ctx.thorough)
    if covutil.final_zero_cov(r.stdout):
        raise vlib.InfraError("actions never taken in Concurrency.tla: %s" % covutil.final_zero_cov(r.stdout))
    table = model_table(ctx, devs, "Concurrency-open-devs") if devs else set()
    for d in devs:
        if not any(any(site in DEV_SITES[d] for _a, site in k) for k in table):
            raise vlib.InfraError("deviation %s switched on but the model predicts no race at its sites: mis-modelled" % d)
    if ctx.thorough:
        for d in devs:
            vlib.expect_dev_counterexample(ctx, "Concurrency", cfg(PAIRS, devs=[d]), d)
        vlib.expect_dev_counterexample(ctx, "Concurrency", cfg([["vm", "vm2"]], nonatomic=True), "DEV_IncNotAtomic")
    # ---- real actors under the race detector
    reps, seen, explained, unknown, panics = race_stage(ctx, binary, table, devs)
    ctx.cov["evaluations"] += len(reps)
    crash_note = {}
    for p in panics:
        actor = p["panic"].split(":")[0]
        # a crash of an actor whose unguarded read is an open deviation is the same finding (the torn slice it read);
        # a crash of any other actor is a violation
        d = {"json": "DEV_JSONMarshalsMetricUnlocked", "gc": "DEV_GcReadsLabelValuesUnlocked", "reload": "DEV_AddIteratesLabelValuesUnlocked"}.get(actor)
        if d in devs:
            crash_note.setdefault(d, []).append("%s (x%d)" % (p["panic"], p["count"]))
        elif actor == "index":
            ctx.violation({"index": p}, "after the concurrent actors finished a metric is no longer a map - slice and index disagree (%s, seen %d times): "
                                        "some operation is not one critical section" % (p["panic"], p["count"]))
        else:
            ctx.violation({"panic": p}, "actor %s failed (panic or error from the real code) while running concurrently with the others: %s" % (actor, p["panic"]))
    for r in unknown[:5]:
        sides = r["sides"]
        what = "unparsed race report" if not sides else "data race between %s at %s and %s at %s" % (
            sides[0]["actor"], sides[0]["site"] or sides[0]["top"][:2], sides[1]["actor"], sides[1]["site"] or sides[1]["top"][:2])
        ctx.violation({"report": r["raw"], "sides": sides, "model_predicted_pairs": sorted(sorted(list(x)) for x in table)},
                      "%s: the corrected model is race-free and no open deviation predicts this pair" % what)
    for d in devs:
        mine = {k: r for k, r in explained.items() if any(site in DEV_SITES[d] for _a, site in k)}
        if mine:
            f = vlib.open_finding(ctx.prop, d)
            ex = sorted(sorted(list(k)) for k in mine)
            ctx.known_finding(d, "%s; the race detector reported %d distinct (actor, site) pairs of this deviation, e.g. %s (%d of the %d pairs the model predicts with it)" % (
                f["what"], len(mine), json.dumps(ex[0]), len(mine),
                sum(1 for k in table if any(site in DEV_SITES[d] for _a, site in k)))
                + ("; the unguarded reader also crashed in some runs" if crash_note.get(d) else ""))
    ctx.cov["actor_panics"] = crash_note
    # ---- atomicity (direction B)
    traces, (hw, ln) = atomic_stage(ctx, binary)
    if hw != ln:
        # find the trace that is rejected and report it
        for t in traces:
            h, l = validate_traces(ctx, [t], "single")
            if h != l:
                ctx.violation({"trace": t[: h + 3], "rejected_at": h},
                              "real run's event log rejected by TraceConcurrency.tla at event %d (%s): a lost increment or an exported value that never existed" % (
                                  h, json.dumps(t[h] if h < len(t) else {"ev": "reset"})))
                break
    ctx.cov["traces_validated_against_impl"] += len(traces)
    ctx.cov["distinct_nontrivial"] = len(seen) + sum(1 for t in traces for e in t if e["ev"] == "exp.value" and 0 < e["v"])
    ctx.cov["exhaustive"] = True
    ctx.cov["rule"] = ("model: all interleavings of every actor pair and two triples; real code: every actor pair, two triples and all "
                       "nine actors together run under -race for several seeded iterations; non-trivial = distinct (actor, site) race "
                       "pairs reported by the detector plus exports that carried a value > 0 while increments were in flight")
    ctx.cov["constants"] = {"actors": ACTORS, "pairs": len(PAIRS), "race_reports": len(reps),
                            "distinct_reported_pairs": sorted(sorted(list(k)) for k in seen),
                            "model_predicted_pairs_with_open_devs": sorted(sorted(list(k)) for k in table),
                            "trace_events": ln}
    ctx.sample({"trace_prefix": traces[0][:8]})
    for k, r in list(explained.items())[:2]:
        ctx.sample({"race": sorted(list(k)), "report": r["raw"][:600]})
    ctx.assumptions += [
        "a race-detector report is a real race (no false positives); a schedule that was not run may hide further races - the model, not the sampling, carries the completeness claim",
        "scheduling perturbation is runtime.Gosched()/spin pauses between calls inside the harness actors: no synchronisation is added, verifhook sinks and gates stay off in the -race runs",
        "reports are mapped to actors by the harness entry function (main.actorXxx) or the mtail function on the stack / creation stack, and to sites by the first metrics function on the access stack",
        "atomicity logs take one atomic sequence number before a call starts and after it returns; the instants between are silent actions of TraceConcurrency.tla",
    ]


def replay(ctx, path):
    # a race report is evidence in itself; re-run the whole stage and report what it finds now
    blob = json.load(open(path))["case"]
    if "trace" in blob:
        hw, ln = validate_traces(ctx, [blob["trace"]], "replay")
        # the stored prefix ends where the log was rejected
        if hw < len(blob["trace"]):
            ctx.violation(blob, "event log rejected by TraceConcurrency.tla")
        return
    binary = vlib.build(ctx, "c11", race=True)
    devs = vlib.open_devs(ctx.prop)
    table = model_table(ctx, devs, "Concurrency-open-devs") if devs else set()
    _reps, _seen, _explained, unknown, _panics = race_stage(ctx, binary, table, devs)
    for r in unknown[:3]:
        ctx.violation({"report": r["raw"], "sides": r["sides"]}, "data race not predicted by the model")
