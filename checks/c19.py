"""C19 - One-shot runs process every line once and then terminate.

spec/System.tla composes, for one-shot mode, the file streams (read to EOF, Finish, close), the tailer's
forwarder goroutines and its two shutdown goroutines ("all streams done => cancel => close lines"), the
runtime's fan-out goroutine, the VM Run loops and the three wait-groups down to Server.Run returning; all
channels are rendezvous.  TLC checks deadlock-freedom, <>RunReturned under weak fairness (no state
constraint), and that every program processes every file's lines exactly once in file order.

Binding, direction B: the Go harness (internal/verif/c19) runs the REAL mtail.New(..., OneShot) + Run on
generated programs and log files (empty files, unterminated last lines, blank and non-matching lines), also
under the race detector with GOMAXPROCS 1/2/16 and seeded sleeps at the hook points, and collects the
verifhook events.  spec/TraceSystem.tla validates order / exactly-once / shutdown order of every run, Run must
return before a generous deadline, and the final store must equal the reference result of each program for
the interleaving that program actually saw.
"""
import json
import os
import random
import subprocess
import threading

import vlib

LEVEL = "model_checking"
META = {
    "text": "TLC exhausts spec/System.tla (file streams, forwarders, tailer shutdown goroutines, runtime fan-out, VM loops, "
            "wait-groups, Run) for 1-2 programs x 0-3 files x <=2 lines incl. empty files and unterminated last lines: "
            "deadlock-freedom, <>RunReturned under weak fairness, exactly-once in file order; spec/TraceSystem.tla validates "
            "the hook events of hundreds of real one-shot runs (also -race, GOMAXPROCS 1/2/16, seeded sleeps) and the final "
            "store is compared with the reference result for the observed interleaving.",
    "note": "Goroutine schedules of the real runs are sampled (GOMAXPROCS, seeded sleeps at hook points), not enumerated. "
            "Programs come from three fixed templates whose result the harness can compute; the language semantics is "
            "C01's. Termination is a deadline (30 s for inputs that take milliseconds), a miss is re-run once.",
    "technique": "TLA+ spec + TLC exhaustive model check incl. liveness; trace validation of real executions (direction B); "
                 "race detector",
    "design_ref": "DESIGN.md 5/C19, 2.3 B, Appendix A.6",
}

MUTS = ["MUT_CloseBeforeDrain", "MUT_NoFinish", "MUT_VmDropped", "MUT_WaitCycle"]
SAFETY = ["TypeOK", "InFileOrder", "ExactlyOnceAtEnd", "AllDownAtEnd", "NoPanic"]
KEEP = {"lr.line", "lr.finish", "tail.fwd", "tail.remove", "tail.close", "rt.line.recv", "rt.line.sent",
        "vm.line.start", "vm.line.end", "vm.exit", "run.returned"}
DEADLINE = 30


def _cfg(spec, progs=None, files=None, on=(), invariants=(), properties=(), tracefile=None, postcondition=None,
         deadlock=False):
    L = ["SPECIFICATION %s" % spec, "CONSTANTS"]
    if tracefile:
        L += ['  TraceFile = "%s"' % tracefile, "  ProgCounts = {}", "  FileSets = {}"]
    else:
        L += ["  ProgCounts = {%s}" % ", ".join(str(p) for p in progs), "  FileSets <- %s" % files]
    for k in MUTS:
        L.append("  %s = %s" % (k, "TRUE" if k in on else "FALSE"))
    L += ["INVARIANT %s" % i for i in invariants]
    L += ["PROPERTY %s" % p for p in properties]
    if postcondition:
        L.append("POSTCONDITION %s" % postcondition)
    L.append("CHECK_DEADLOCK %s" % ("TRUE" if deadlock else "FALSE"))
    return "\n".join(L) + "\n"


def _par(jobs, width):
    sem = threading.Semaphore(width)
    out, errs = [None] * len(jobs), []

    def work(i):
        with sem:
            try:
                out[i] = jobs[i]()
            except Exception as e:       # noqa: BLE001 - re-raised below
                errs.append(e)
    ths = [threading.Thread(target=work, args=(i,)) for i in range(len(jobs))]
    for t in ths:
        t.start()
    for t in ths:
        t.join()
    if errs:
        raise errs[0]
    return out


def model_stage(ctx):
    if ctx.thorough:
        runs = [((1, 2), "Files1to3", False), ((1, 2), "Files1to2", True), ((2,), "Named", True), ((3,), "TwoTail", True)]
    else:
        runs = [((1, 2), "Files1to2", False), ((1,), "Named", True), ((2,), "TwoTail", True), ((1,), "NoFiles", True)]
    w = max(2, vlib.NCPU // 4)
    jobs = []
    for i, (progs, files, live) in enumerate(runs):
        jobs.append(lambda progs=progs, files=files, live=live, i=i: vlib.tlc(
            ctx, "MCSystem", _cfg("Spec", progs, files, invariants=SAFETY, properties=["Terminates"] if live else [],
                                  deadlock=True),
            workers=(max(w, vlib.NCPU - 4) if files == "Files1to3" else w),
            label="system-%s-%s%s" % ("".join(map(str, progs)), files, "-live" if live else ""),
            timeout=2400, coverage=(i == 0 and not ctx.thorough)))
    expect = {
        "MUT_CloseBeforeDrain": ([], []),        # NoPanic or ExactlyOnce - whichever TLC meets first
        "MUT_NoFinish": ([], []),
        "MUT_VmDropped": ([], []),
        "MUT_WaitCycle": ([], []),
    }
    names = list(expect)
    for sw in names:
        jobs.append(lambda sw=sw: vlib.expect_dev_counterexample(
            ctx, "MCSystem", _cfg("Spec", (2,), "TwoTail", on=[sw], invariants=SAFETY, properties=["Terminates"],
                                  deadlock=True), sw, workers=2, timeout=900))
    res = _par(jobs, width=max(2, vlib.NCPU // w))
    if not ctx.thorough:
        never = sorted(set(res[0].zero_cov) - {"FwdSendClosed"})       # only reachable under MUT_CloseBeforeDrain
        ctx.cov["actions_never_taken"] = never
        if never:
            raise vlib.InfraError("System actions never taken (vacuous model): %s" % never)
    for sw, r in zip(names, res[-len(names):]):
        ctx.cov.setdefault("switch_counterexamples", {})[sw] = r.violated


# ---------------------------------------------------------------------------
def gen_case(rng, cid, maxlines):
    nf = rng.choice([1, 2, 2, 3, 3])
    files = []
    special = rng.sample(range(nf), nf)
    for k in range(nf):
        tag = "f" + "abc"[k]
        n = rng.randint(0, maxlines)
        if nf > 1 and special[0] == k and rng.random() < 0.4:
            n = 0                                   # an empty file
        lines = []
        for i in range(1, n + 1):
            r = rng.random()
            if r < 0.08:
                lines.append("")
            elif r < 0.16:
                lines.append("# note %d" % i)
            else:
                lines.append("%s %d %d" % (tag, i, rng.randint(0, 99)))
        # numbering must stay consecutive over the lines that carry a number (the `order` template counts gaps)
        k2 = 0
        for j, t in enumerate(lines):
            if t.startswith(tag + " "):
                k2 += 1
                lines[j] = "%s %d %s" % (tag, k2, t.split(" ")[2])
        tail = bool(lines) and lines[-1] != "" and rng.random() < 0.45
        files.append({"name": tag + ".log", "lines": lines, "tail": tail})
    npg = rng.choice([1, 2, 2, 3])
    progs = [{"name": "p%d.mtail" % (i + 1), "template": rng.choice(["count", "order", "max"])} for i in range(npg)]
    return {"id": cid, "seed": rng.randint(1, 1 << 30), "files": files, "progs": progs, "glob": rng.random() < 0.4,
            "perturb": rng.choice([0, 3, 3, 6])}


def nontrivial(case):
    return len([f for f in case["files"] if f["lines"]]) >= 2 and len(case["progs"]) >= 2


def run_proc(ctx, binary, cases, gomaxprocs, race, tag):
    d = ctx.sub("c19-" + tag)
    inp = os.path.join(d, "cases.ndjson")
    with open(inp, "w") as f:
        for c in cases:
            f.write(json.dumps(c, separators=(",", ":")) + "\n")
    env = vlib.harness_env(ctx)
    env["GOMAXPROCS"] = str(gomaxprocs)
    if race:
        env["GORACE"] = "log_path=%s halt_on_error=0 exitcode=0" % os.path.join(d, "race")
    with open(inp) as fin:
        try:
            r = subprocess.run([binary, "-deadline=%ds" % DEADLINE], stdin=fin, env=env, capture_output=True, text=True,
                               errors="replace", cwd=d, timeout=300 + 2 * DEADLINE + len(cases) * 2)
        except subprocess.TimeoutExpired:
            raise vlib.InfraError("c19 harness timed out (%s)" % tag)
    out = []
    for line in r.stdout.splitlines():
        if line.startswith("{"):
            try:
                out.append(json.loads(line))
            except ValueError:
                pass
    crash = None
    if r.returncode != 0:
        if r.returncode == 2 and ("panic:" in r.stderr or "fatal error:" in r.stderr) and "mtail/internal/" in r.stderr:
            i = r.stderr.find("panic:") if "panic:" in r.stderr else r.stderr.find("fatal error:")
            crash = r.stderr[i:i + 3000]
        else:
            raise vlib.InfraError("c19 harness exited %d (%s):\n%s" % (r.returncode, tag, r.stderr[-3000:]))
    races = []
    for fn in sorted(os.listdir(d)):
        if fn.startswith("race."):
            races.append(open(os.path.join(d, fn), errors="replace").read())
    results = {x["id"]: x for x in out if "id" in x}
    return results, crash, races


def to_records(case, res, tid=1):
    """Hook events of one run -> the records TraceSystem.tla reads."""
    fidx = {f["name"]: i + 1 for i, f in enumerate(case["files"])}
    pidx = {p["name"]: i + 1 for i, p in enumerate(case["progs"])}
    recs, order, cnt = [], [], {}
    for e in res["events"]:
        ev = e["ev"]
        if ev not in KEEP:
            continue
        r = {"ev": ev}
        if "file" in e or "path" in e:
            name = e.get("file", e.get("path"))
            if name not in fidx:
                return None
            r["f"] = fidx[name]
        if "prog" in e:
            if e["prog"] not in pidx:
                return None
            r["p"] = pidx[e["prog"]]
        if "line" in e:
            r["line"] = e["line"]
        if ev == "rt.line.recv":
            r["nprogs"] = e["nprogs"]
            cnt[r["f"]] = cnt.get(r["f"], 0) + 1
            order.append([r["f"], cnt[r["f"]]])
        recs.append(r)
    head = {"ev": "reset", "id": tid, "nprogs": len(case["progs"]),
            "files": [{"lines": f["lines"], "tail": bool(f["tail"])} for f in case["files"]], "order": order}
    return [head] + recs + [{"ev": "end"}]


def reorder(recs):
    """Recompute the prophecy after a trace was edited (self-test)."""
    recs = [dict(r) for r in recs]
    order, cnt = [], {}
    for r in recs:
        if r["ev"] == "rt.line.recv":
            cnt[r["f"]] = cnt.get(r["f"], 0) + 1
            order.append([r["f"], cnt[r["f"]]])
    recs[0]["order"] = order
    return recs


def validate(ctx, traces, label="traces"):
    allkeys = list(traces)
    if not allkeys:
        return set(), {}
    nshard = max(1, min(vlib.NCPU // 2 or 1, 6, len(allkeys) // 60 or 1))
    results, errs = [], []

    def work(si, keys):
        try:
            lines, start = [], {}
            for i, k in enumerate(keys):
                recs = [dict(r) for r in traces[k]]
                recs[0]["id"] = i + 1
                start[i + 1] = len(lines) + 1
                lines += [json.dumps(r, separators=(",", ":")) for r in recs]
            r = vlib.tlc(ctx, "TraceSystem", _cfg("TSpec", tracefile="trace.ndjson", invariants=SAFETY, postcondition="Post"),
                         workers=1, timeout=1200, extra_files={"trace.ndjson": "\n".join(lines) + "\n"},
                         label="%s-%d" % (label, si))
            acc, hw = set(), {}
            for c in r.cases:
                if "accept" in c:
                    acc.add(keys[c["accept"] - 1])
                elif "hw" in c:
                    hw[keys[c["tr"] - 1]] = c["hw"] - start[c["tr"]]
            if len(hw) != len(keys):
                raise vlib.InfraError("trace validation did not report every trace (%d of %d)" % (len(hw), len(keys)))
            results.append((acc, hw))
        except Exception as e:           # noqa: BLE001 - re-raised below
            errs.append(e)
    ths = [threading.Thread(target=work, args=(si, allkeys[si::nshard])) for si in range(nshard)]
    for t in ths:
        t.start()
    for t in ths:
        t.join()
    if errs:
        raise errs[0]
    acc, hw = set(), {}
    for a, h in results:
        acc |= a
        hw.update(h)
    return acc, hw


def selftest(ctx, traces, accepted):
    """The trace specification binds: corrupted copies of an accepted real trace must be rejected."""
    best = None
    for k in accepted:
        recs = traces[k]
        starts = [i for i, r in enumerate(recs) if r["ev"] == "vm.line.start"]
        if recs[0]["nprogs"] >= 2 and len([f for f in recs[0]["files"] if f["lines"]]) >= 2 and len(starts) >= 6:
            best = (recs, starts)
            break
    if best is None:
        raise vlib.InfraError("self-test: no accepted trace with >= 2 programs, >= 2 non-empty files and >= 6 processed lines")
    recs, starts = best
    muts = {"control-unmodified": recs}
    i = starts[len(starts) // 2]
    m = [dict(r) for r in recs]
    m[i]["line"] = m[i]["line"] + "x"                         # a program saw a different text
    muts["corrupt-line-text"] = m
    muts["drop-vm-line-start"] = [r for j, r in enumerate(recs) if j != i]                     # a line not processed
    muts["dup-vm-line"] = recs[:i + 1] + [dict(recs[i])] + recs[i + 1:]                         # ... processed twice
    p, f = recs[i]["p"], recs[i]["f"]
    same = [j for j in starts if recs[j]["p"] == p and recs[j]["f"] == f]
    if len(same) >= 2:
        a, b = same[0], same[1]
        m = [dict(r) for r in recs]
        m[a]["line"], m[b]["line"] = m[b]["line"], m[a]["line"]                                # file order broken
        # keep each start's matching end consistent so that only the order is wrong
        muts["swap-file-order"] = m
    tc = [j for j, r in enumerate(recs) if r["ev"] == "tail.close"][0]
    fwd = [j for j, r in enumerate(recs) if r["ev"] == "lr.line" or r["ev"] == "lr.finish"]
    muts["close-before-last-line-offered"] = recs[:fwd[-1]] + [recs[tc]] + \
        [r for j, r in enumerate(recs[fwd[-1]:], fwd[-1]) if j != tc]                            # lines closed too early
    ex = [j for j, r in enumerate(recs) if r["ev"] == "vm.exit"][0]
    mine = [j for j in starts if recs[j]["p"] == recs[ex]["p"]]       # that program's own last line
    muts["vm-exit-before-its-last-line"] = recs[:mine[-1]] + [recs[ex]] + \
        [r for j, r in enumerate(recs[mine[-1]:], mine[-1]) if j != ex]
    muts["drop-tail-close"] = [r for r in recs if r["ev"] != "tail.close"]                     # lines never closed
    acc, _ = validate(ctx, {k: reorder(v) for k, v in muts.items()}, label="selftest")
    wrongly = sorted(a for a in acc if a != "control-unmodified")
    if wrongly or "control-unmodified" not in acc:
        raise vlib.InfraError("trace-spec self-test failed: corrupted traces accepted %s / control accepted %s" % (
            wrongly, "control-unmodified" in acc))
    ctx.cov["selftest_mutants_rejected"] = len(muts) - 1


def brief(recs):
    return [[r["ev"]] + [r[x] for x in ("p", "f", "line") if x in r] for r in recs[1:]]


def judge(ctx, binary, case, res, recs, hw, why):
    """A run the specification rejects / that did not return / whose store differs: re-execute that single
    case from a clean start (fresh process) before it counts."""
    tries = 1 if not res.get("returned") else 12
    bad = None
    results, crash, _ = run_proc(ctx, binary, [dict(case, id=i) for i in range(1, tries + 1)], case.get("_gmp", 2), False, "reexec")
    if crash or len(results) < tries:
        bad = {"crash": crash, "results": len(results)}
    else:
        t2 = {i: to_records(case, r) for i, r in results.items() if r.get("returned")}
        acc2, _ = validate(ctx, {i: t for i, t in t2.items() if t}, label="reexec")
        for i, r2 in sorted(results.items()):
            if not r2.get("returned") or r2.get("store_diff") or i not in acc2:
                bad = {"returned": r2.get("returned"), "store_diff": r2.get("store_diff"),
                       "trace": brief(t2[i]) if t2.get(i) else None, "goroutines": r2.get("goroutines")}
                break
    if bad is None:
        raise vlib.InfraError("a run was rejected (%s) but %d re-executions of its case were all fine; case=%s trace=%s" % (
            why, tries, json.dumps(case), json.dumps(brief(recs) if recs else None)))
    ctx.violation({"case": case, "why": why, "returned": res.get("returned"), "store_diff": res.get("store_diff"),
                   "trace": brief(recs) if recs else None, "rejected_at": hw, "goroutines": res.get("goroutines"),
                   "reexecution": bad}, why)


def run(ctx):
    binary = vlib.build(ctx, "c19")
    rbinary = vlib.build(ctx, "c19", race=True)
    rng = random.Random(ctx.seed * 1000003 + 19)
    n = 1500 if ctx.thorough else 240
    maxlines = 8 if ctx.thorough else 4
    cases = {i: gen_case(rng, i, maxlines if i % 3 else 2) for i in range(1, n + 1)}
    # shards: (binary, GOMAXPROCS); about a third under the race detector
    plan = [(binary, 1, False), (binary, 2, False), (binary, 16, False), (rbinary, 1, True), (rbinary, 2, True),
            (rbinary, 16, True), (binary, 4, False), (binary, 2, False)]
    if ctx.thorough:
        plan = plan * 2
    shards = [[] for _ in plan]
    for i, c in cases.items():
        s = i % len(plan)
        c["_gmp"] = plan[s][1]
        shards[s].append(c)
    # the model stage (TLC) runs side by side with the real runs
    jobs = [lambda: None if os.environ.get("VERIF_C19_SKIP_MODEL") else model_stage(ctx)]      # developer switch
    jobs += [lambda s=s, pl=pl, k=k: run_proc(ctx, pl[0], s, pl[1], pl[2], "s%d-g%d%s" % (k, pl[1], "-race" if pl[2] else ""))
             for k, (s, pl) in enumerate(zip(shards, plan))]
    out = _par(jobs, width=min(vlib.NCPU, 8) + 1)[1:]
    results, races, crashes = {}, [], []
    for k, (r, crash, rc) in enumerate(out):
        results.update(r)
        races += rc
        if crash:
            crashes.append((k, crash))
    for k, crash in crashes[:2]:
        # the server's own code panicked: re-execute that shard from a clean start to confirm
        again = [c for c in shards[k] if c["id"] not in results or not results[c["id"]].get("returned")] or shards[k]
        crash2 = None
        for t in range(3):
            _r, crash2, _ = run_proc(ctx, plan[k][0], shards[k], plan[k][1], plan[k][2], "recrash%d-%d" % (k, t))
            if crash2:
                break
        if crash2:
            ctx.violation({"cases_in_flight": again[:3], "crash": crash, "crash_on_reexecution": crash2},
                          "mtail panicked during a one-shot run: %s" % crash.splitlines()[0])
        else:
            raise vlib.InfraError("a harness process died from a panic inside mtail that did not reproduce:\n" + crash)
    missing = [i for i in cases if i not in results]
    # cases after a timed-out run in the same process were not executed: run them now
    if missing and not crashes:
        more, crash, rc = run_proc(ctx, binary, [cases[i] for i in missing], 2, False, "rest")
        results.update(more)
        races += rc
        missing = [i for i in cases if i not in results]
        if missing:
            raise vlib.InfraError("harness produced no result for cases %s" % missing[:10])
    traces, broken = {}, []
    for i, res in results.items():
        recs = to_records(cases[i], res) if res.get("returned") else None
        if recs is None:
            broken.append(i)
        else:
            traces[i] = recs
    acc, hw = validate(ctx, traces, label="traces")
    ctx.cov["traces_validated_against_impl"] += len(traces)
    ctx.cov["evaluations"] += len(results)
    ctx.cov["events_validated"] = sum(len(t) for t in traces.values())
    ctx.cov["runs_under_race_detector"] = sum(len(s) for s, pl in zip(shards, plan) if pl[2])
    ctx.cov["gomaxprocs"] = sorted({pl[1] for pl in plan})
    ctx.cov["distinct_nontrivial"] = len({vlib.stable_hash(brief(traces[k])) for k in traces if nontrivial(cases[k])})
    ctx.cov["max_elapsed_ms"] = max([r.get("elapsed_ms", 0) for r in results.values()] or [0])
    for k in sorted(acc):
        if nontrivial(cases[k]) and len(traces[k]) < 120:
            ctx.sample({"case": {x: cases[k][x] for x in ("files", "progs", "glob", "perturb", "_gmp")},
                        "trace": brief(traces[k])[:60]}, limit=2)
    if not acc:
        raise vlib.InfraError("no run at all was accepted - harness or trace specification broken")
    selftest(ctx, traces, sorted(acc))
    nbad = 0
    for i in sorted(results):
        res = results[i]
        why = None
        if not res.get("returned"):
            why = "Server.Run did not return within %d s (one-shot input of %d lines)" % (
                DEADLINE, sum(len(f["lines"]) for f in cases[i]["files"]))
        elif i not in acc:
            t = traces[i]
            why = "event %d (%s) cannot be explained by spec/System.tla" % (hw[i], json.dumps(t[hw[i]] if hw[i] < len(t) else None))
        elif res.get("store_diff"):
            why = "final store differs from the reference result for the observed interleaving: %s" % "; ".join(res["store_diff"][:4])
        if why and nbad < 4:
            nbad += 1
            judge(ctx, binary, cases[i], res, traces.get(i), hw.get(i), why)
    # race detector reports
    wgraces = [r for r in races if "sync.(*WaitGroup)" in r or "close of" in r]
    ctx.cov["race_reports"] = len(races)
    ctx.cov["race_reports_waitgroup"] = len(wgraces)
    if races:
        vlib.log("race detector reports during one-shot runs: %d (wait-group related: %d)\n%s" % (
            len(races), len(wgraces), races[0][:1500]))
    if wgraces:
        ctx.violation({"race_report": wgraces[0][:6000]},
                      "the race detector reports a wait-group Add racing Wait / channel close race during one-shot shutdown")
    ctx.cov["exhaustive"] = False
    ctx.cov["rule"] = ("model: every interleaving of System.tla for the listed program/file configurations; implementation: one "
                       "real one-shot run per seeded case (1-3 programs x 1-3 files x 0-%d lines, glob or explicit paths, "
                       "GOMAXPROCS/race/perturbation by shard); non-trivial = at least two non-empty files and two programs; "
                       "distinct = different event sequences" % maxlines)
    ctx.cov["constants"] = {"cases": n, "maxlines": maxlines, "deadline_s": DEADLINE}
    ctx.assumptions += [
        "hook events carry one sequence number taken under the hook lock; hooks placed before a step are that step, "
        "hooks placed after a rendezvous only assert it happened",
        "the three program templates are computed by the harness' own reference function (language semantics is C01's)",
        "termination: Run must return within 30 s (inputs take milliseconds); a miss is re-run once before it counts",
        "data races not involving wait-groups / channel close are counted in the evidence and left to C11",
    ]


def replay(ctx, path):
    blob = json.load(open(path))["case"]
    binary = vlib.build(ctx, "c19")
    case = blob.get("case")
    if case is None:
        raise vlib.InfraError("replay file without a case")
    results, crash, _ = run_proc(ctx, binary, [dict(case, id=i) for i in range(1, 13)], case.get("_gmp", 2), False, "replay")
    if crash or len(results) < 12:
        ctx.violation(blob, "replayed case crashed or did not return")
        return
    traces = {i: to_records(case, r) for i, r in results.items() if r.get("returned")}
    acc, _ = validate(ctx, {i: t for i, t in traces.items() if t}, label="replay")
    for i, r in sorted(results.items()):
        if not r.get("returned") or r.get("store_diff") or i not in acc:
            ctx.violation(blob, "replayed case fails again (run %d of 12: returned=%s store_diff=%s accepted=%s)" % (
                i, r.get("returned"), r.get("store_diff"), i in acc))
            return
