"""C26 - Program directory scanning loads exactly the eligible files.

spec/Runtime.tla (family C26): a directory with program files (a.mtail, b.mtail), a
dot-file (.d.mtail), a non-.mtail file (e.txt) and a subdirectory with a program-like
name (s.mtail/, holding a valid inner.mtail); contents v1 / v2 (version-stamped gauge)
/ bad.  Every directory operation (add, edit, break, touch, remove, rename, mkdir,
rmdir) is followed by LoadAllPrograms as coded (mark all handles; per non-directory
entry LoadProgram: dot/extension filter, hash, compile, register, swap; unmark; unload
the rest) and by one probe line.

  TLC: HandlesAreIdeal (handles = Ideal(directory history): eligible files that
  compiled since they were last added, at their last compiled contents),
  NoLineToUnloaded, plus the C14 invariants, exhaustively.
  Direction A: every enumerated history on a real directory + Runtime.LoadAllPrograms;
  the running version is read from the version-stamped gauge after the probe line,
  handles/hashes through the accessor, prog_loads/unloads/load_errors deltas, the
  rt.load.* / rt.unload hook events, the store and a Prometheus scrape.
"""
import rtlib
import vlib

LEVEL = "model_checking"
META = {
    "text": "TLC exhausts spec/Runtime.tla family C26 (LoadAllPrograms/LoadProgram/CompileAndRun/UnloadProgram at the code's "
            "grain) for all histories of <=5 directory operations (quick 3) over two program files, a dot-file, a .txt file and a "
            "subdirectory with contents v1/v2/broken, checking handles = Ideal(directory history) and that unloaded programs "
            "receive no line; every enumerated history (<=4 ops, quick 3, plus simulated longer ones) is replayed on a real program "
            "directory and Runtime, observing the running version through a version-stamped gauge.",
    "note": "A NEW directory entry that cannot be opened (a dangling symlink) is in the alphabet; other symlinks and a program path that "
            "is a single file are not.",
    "technique": "TLA+ spec + TLC exhaustive/simulated directory histories replayed into the real runtime (direction A); thorough: hook traces of the repository's runtime/program-load tests validated by spec/TraceRuntime.tla (direction B)",
    "design_ref": "DESIGN.md 5/C26, Appendix A.4",
}
FAM = "C26"
INVS = ["TypeOK", "HandlesAreIdeal", "NoLineToUnloaded", "IdenticalReloadIsNoop", "KeptDeclarationKeepsData",
        "FailedLoadChangesNothing", "RunningVmIsExported", "NoDuplicateSeries", "CountersExact"]
THREE = [".d.mtail", "a.mtail", "b.mtail", "c.mtail", "e.txt", "s.mtail"]


def nontrivial(c):
    """some operation changes or removes a file that is already there (edit/break/touch/remove/rename)"""
    present = set()
    hit = False
    for s in c["h"]:
        a = s["a"]
        if a["op"] == "write":
            hit = hit or a["name"] in present
            present.add(a["name"])
        elif a["op"] == "mkdir":
            present.add(a["name"])
        elif a["op"] == "rm":
            hit = hit or a["name"] in present
            present.discard(a["name"])
        elif a["op"] == "mv":
            hit = True
            present.discard(a["name"])
            present.add(a["to"])
    return hit


def run(ctx):
    opened = vlib.open_devs(ctx.prop)
    th = ctx.thorough
    W4 = max(2, vlib.NCPU // 4)
    out = {}

    def job(name, f):
        def g():
            out[name] = f()
        return g

    pd, ed = (5, 4) if th else (3, 3)
    jobs = [
        job("prop", lambda: rtlib.model(ctx, FAM, pd, invs=INVS, label="C26-props", workers=W4 * 3 if th else W4 * 2,
                                        timeout=3000, coverage=not th)),
        job("bin", lambda: vlib.build(ctx, "c26")),
        job("emit", lambda: rtlib.model(ctx, FAM, ed, invs=INVS, emit=True, label="C26-emit", workers=W4, timeout=3000)),
    ]
    if opened:
        jobs.append(job("emitdev", lambda: rtlib.model(ctx, FAM, ed, devs=opened, emit=True, label="C26-emit-dev",
                                                       workers=W4, timeout=3000)))
    if th:
        # three program files
        jobs.append(job("prop3", lambda: rtlib.model(ctx, FAM, 3, invs=INVS, names=THREE, label="C26-props-3progs",
                                                     workers=W4, timeout=3000, coverage=True)))
    nsim, depth = (800, 6) if th else (150, 5)
    jobs.insert(1, job("sim", lambda: rtlib.model(ctx, FAM, depth, invs=INVS, emit=True, simulate=nsim, depth=depth * 30 + 5,
                                                  seed=ctx.seed * 17 + 3, label="C26-sim", timeout=1500)))
    if th:
        # direction B: the repository's own runtime / program-load tests, recorded with the hooks on
        jobs.append(lambda: rtlib.direction_b(ctx, "C26"))
    rtlib.parallel(jobs)
    rtlib.check_coverage(out["prop3"] if th else out["prop"], FAM)
    binary = out["bin"]
    seen = set()

    def replay(cases, cases_dev, what):
        for c in cases:
            if nontrivial(c):
                seen.add(rtlib.case_key(c))
        ctx.sample({"history": rtlib.describe(FAM, cases[len(cases) // 2]),
                    "expected_handles_after_last_op": cases[len(cases) // 2]["h"][-1]["obs"]["run"]})
        rtlib.replay(ctx, binary, FAM, cases, cases_dev, what=what, open_devs=opened)

    replay(out["emit"].cases, out["emitdev"].cases if opened else None, "exhaustive")
    sim = out["sim"]
    uniq = {}
    for c in sim.cases:
        uniq.setdefault(rtlib.case_key(c), c)
    simc = list(uniq.values())
    simdev = None
    if opened and simc:
        simdev = rtlib.model(ctx, FAM, depth, devs=opened, emit=True, scripts=[[s["a"] for s in c["h"]] for c in simc],
                             label="C26-sim-dev", workers=W4 * 2, timeout=1500).cases
    if simc:
        replay(simc, simdev, "simulated %d ops" % depth)
    ctx.cov["distinct_nontrivial"] = len(seen)
    ctx.cov["exhaustive"] = True
    ctx.cov["rule"] = ("every maximal history of Runtime.tla/C26 (write v1|v2|bad to a.mtail/b.mtail, create .d.mtail / e.txt, "
                       "mkdir s.mtail/, remove, rename where one side is a program name; LoadAllPrograms + probe line after each) "
                       "is replayed; non-trivial = some operation changes, removes or renames an entry that already exists")
    ctx.cov["constants"] = {"MaxOps_properties": pd, "MaxOps_replayed_exhaustively": ed, "simulated_histories": len(simc),
                            "simulated_length": depth, "names": rtlib.NAMES[FAM], "open_deviations": opened}
    ctx.assumptions += [
        "os.ReadDir returns entries sorted by name (documented); the model visits names in byte order",
        "files are replaced atomically (write to a temporary dot-name outside the scan, rename), so a reload never reads a "
        "half-written program",
        "the probe line is sent only while no load is in progress (C20 covers the interleaving)",
    ]


def replay(ctx, path):
    rtlib.replay_file(ctx, "c26", path)
