"""The test barrier internal/waker/testwaker.go, which every stream replay engine of this tree drives mtail with, checked like
the code under test: spec/Waker.tla (model checked) and spec/TraceWaker.tla (recorded executions of the real testWaker).
A failure here is a fault of the trusted base, reported as an infrastructure error of the calling check - never as a
violation of its property."""
import json
import os

import vlib


def _cfg(wakees, cycles, off, invariants, props=(), deadlock=True):
    return vlib.cfg_text(spec="Spec", constants={"Wakees": "={%s}" % ", ".join(str(w) for w in range(1, wakees + 1)),
                                                  "MaxCycles": cycles, "DisciplineOff": off},
                         invariants=list(invariants), properties=list(props), check_deadlock=deadlock)


def _validate(ctx, runs, wakees, label):
    path = os.path.join(ctx.sub("waker-" + label), "trace.ndjson")
    n = 0
    with open(path, "w") as f:
        for evs in runs:
            for e in evs:
                f.write(json.dumps({"ev": e["ev"], "w": e["w"], "g": e["g"], "k": e["k"], "m": e["m"], "lv": e["lv"]}) + "\n")
                n += 1
            f.write(json.dumps({"ev": "reset", "w": 0, "g": 0, "k": 0, "m": 0, "lv": []}) + "\n")
            n += 1
    c = vlib.cfg_text(spec="TSpec", constants={"Wakees": "={%s}" % ", ".join(str(w) for w in range(1, wakees + 1)), "MaxCycles": 99,
                                               "DisciplineOff": False, "TraceFile": path},
                      invariants=["TSafety", "HighWater"], postcondition="Post")
    r = vlib.tlc(ctx, "TraceWaker", c, workers=1, label="TraceWaker-" + label, timeout=900)
    if not r.cases:
        raise vlib.InfraError("TraceWaker printed no high-water mark")
    return r.cases[-1]["hw"], n


def run(ctx):
    big = ctx.thorough
    # the algorithm under the discipline the engines follow: safety, no deadlock, every awaken call returns
    vlib.tlc(ctx, "Waker", _cfg(3, 3 if big else 2, False, ["TypeOK", "NoLostWakeup", "Settled", "BroadcastReachesAll"], ["AwakenReturns"]),
             label="Waker-discipline", timeout=900)
    # ... and why the discipline is needed: without it awaken can wait for ever
    d = vlib.tlc(ctx, "Waker", _cfg(2, 2, True, ["TypeOK", "NoLostWakeup"]), label="Waker-no-discipline", timeout=900, expect_violation=True)
    if d.violated != "Deadlock":
        raise vlib.InfraError("Waker.tla without the discipline: expected a deadlock, TLC reports %s" % d.violated)
    # the real testWaker
    binary = vlib.build(ctx, "wakerx")
    nruns = 120 if big else 40
    recs = [r for r in vlib.run_harness(ctx, binary, args=["-runs", str(nruns), "-wakees", "3", "-cycles", "4"], timeout=600) if "events" in r]
    if len(recs) != nruns or any(r["stuck"] for r in recs):
        raise vlib.InfraError("wakerx: %d of %d runs, %d stuck" % (len(recs), nruns, sum(1 for r in recs if r["stuck"])))
    runs = [r["events"] for r in recs]
    hw, n = _validate(ctx, runs, 3, "real")
    if hw != n:
        raise vlib.InfraError("the real testWaker left spec/Waker.tla: event log accepted up to event %d of %d" % (hw, n))
    # self-test: a log with a wake-up that the broadcast did not cause must be rejected
    bad = [dict(e) for e in runs[0]]
    k = next(j for j, e in enumerate(bad) if e["ev"] == "woken")
    first_begin = next(j for j, e in enumerate(bad) if e["ev"] == "begin")
    bad.insert(first_begin, bad.pop(k))          # woken before awaken began
    hw2, n2 = _validate(ctx, [bad], 3, "selftest")
    if hw2 == n2:
        raise vlib.InfraError("TraceWaker.tla accepted a log with a wake-up before awaken was called: the trace spec does not bind")
    ctx.cov["test_barrier"] = {"spec": "Waker.tla model checked (3 wakees); %d executions of the real testWaker (%d events) validated by "
                                       "TraceWaker.tla; self-test rejected" % (nruns, n)}
