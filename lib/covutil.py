"""TLC -coverage prints interim statistics every minute; an action that is merely not
reached yet shows 0:0 there.  Only the last block (printed at the end of the run) counts."""
import re


def final_zero_cov(stdout):
    i = stdout.rfind("The coverage statistics at")
    block = stdout[i:] if i >= 0 else stdout
    return re.findall(r"^<(\w+) line[^\n]*>: 0:0$", block, flags=re.M)
