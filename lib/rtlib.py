"""Shared machinery of the C14 / C26 / C06 checks (spec/Runtime.tla, harness
package internal/verif/rtx).

  * model()       - run TLC on Runtime.tla through a generated RuntimeMC module
                    (sequence-valued constants cannot be written in a .cfg)
  * SOURCES       - the concrete mtail source of every abstract program version
  * concretise()  - TLC history -> harness case (operations + expected observations)
  * replay()      - shard the cases over harness processes, classify every case as
                    ok (corrected design) / dev (explained by the open deviations of the
                    property) / mismatch (-> re-run from a clean start -> VIOLATION)
"""
import json
import os
import threading
from concurrent.futures import ThreadPoolExecutor

import vlib

DEVS = ["DEV_DupeKeyIncludesSource", "DEV_DupeKeyIncludesType", "DEV_AddDropsExpiry",
        "DEV_PartialRegistration", "DEV_KindCheckAgainstFirst", "DEV_RegisterErrorNotCounted"]

NAMES = {
    "C14": ["p.mtail"],
    "C26": [".d.mtail", "a.mtail", "b.mtail", "e.txt", "s.mtail"],     # os.ReadDir (byte) order
    "C06": ["p1.mtail", "p2.mtail", "p3.mtail"],
}
# actions of Next that a family never takes (Probe is the C26 probe line)
UNUSED = {"C14": {"Probe"}, "C06": {"Probe", "LaMark", "LaNext", "LaUnload"}, "C26": set()}   # C06 calls LoadProgram directly

LINES = {"a": "new a", "b": "new b", "A": "old a", "0": "new 0"}


# ---------------------------------------------------------------------------
# concrete sources.  Declarations sit on exactly the line the model says
# (Metric.Source = "prog:LINE:COL" is part of the store's dedupe key).
# ---------------------------------------------------------------------------
def _c14(cdecl="counter c by k", tdecl="counter t", cstmt="c[$1]++", tstmt="t++", moved=False, tail=""):
    decls = [cdecl] + (["# a comment line moves the declarations below"] if moved else []) + \
            ["gauge g", tdecl, "hidden counter h"]
    body = ["/^old / {", "  settime(1000)", "}", "/^\\S+ (\\S+)/ {", "  " + cstmt, "  del c[$1] after 1h",
            "  g = 1", "  " + tstmt, "  h++", "}"]
    return "\n".join(decls + body) + "\n" + tail


def _c26(stamp):
    return "gauge ver\ncounter n\n/./ {\n  ver = %d\n  n++\n}\n" % stamp


def _c06(mdecl="counter m by k", mstmt="m[$1]++", rterr=False, tail=""):
    L = ["counter n", mdecl]
    if rterr:
        L += ["hidden gauge z", "/^\\S+ (\\d+) / {", "  z = 1 / $1", "}"]
    L += ["/^\\S+ (\\S+)/ {", "  n++", "  " + mstmt, "}"]
    return "\n".join(L) + "\n" + tail


BROKEN = "counter n\nthis is not a program {\n"
SOURCES = {
    "C14": {
        "v0": _c14(),
        "v1": _c14(tail="# edited: a trailing comment\n"),
        "v2": _c14(moved=True),
        "v3": _c14(tdecl="gauge t", tstmt="t = 1"),
        "v4": _c14(cstmt="c[$1] += 1.0"),
        "v5": _c14(cdecl="counter c by j"),
        "v6": BROKEN,
    },
    "C26": {"v1": _c26(1), "v2": _c26(2), "bad": BROKEN, "unread": ""},      # unread: the harness makes a dangling symlink
    "C06": {
        "cint": _c06(), "cint+": _c06(tail="# touched\n"),
        "cflt": _c06(mstmt="m[$1] += 1.0"), "cflt+": _c06(mstmt="m[$1] += 1.0", tail="# touched\n"),
        "gaug": _c06(mdecl="gauge m by k", mstmt="m[$1] = 7"),
        "gaug+": _c06(mdecl="gauge m by k", mstmt="m[$1] = 7", tail="# touched\n"),
        "bad": BROKEN, "bad+": BROKEN + "# touched\n",
        "rterr": _c06(rterr=True), "rterr+": _c06(rterr=True, tail="# touched\n"),
    },
}


# ---------------------------------------------------------------------------
# TLC
# ---------------------------------------------------------------------------
def act_key(a):
    """must equal ActKey of Runtime.tla"""
    return ":".join([a["op"], a["name"], a["to"], a["cid"], a["line"]])


def tla_act(a):
    return '[op |-> "%s", name |-> "%s", to |-> "%s", cid |-> "%s", line |-> "%s"]' % (
        a["op"], a["name"], a["to"], a["cid"], a["line"])


def model(ctx, fam, maxops, maxlines=3, devs=(), invs=(), emit=False, view=None, firstbase=True,
          scripts=None, names=None, label=None, omit_source=False, **kw):
    """One TLC run of Runtime.tla.  view defaults to the history-free fingerprint
    for property runs and to the full state for runs that emit cases."""
    names = names or NAMES[fam]
    if view is None:
        view = not emit
    c = {"Family": fam, "MaxOps": maxops, "MaxLines": maxlines, "FirstBase": firstbase, "EmitCases": emit,
         "OmitSource": omit_source}
    for d in DEVS:
        c[d] = d in devs
    t = vlib.cfg_text(spec="Spec", constants=c, invariants=list(invs) + ["Emit"],
                      view="StateView" if view else None)
    t = t.replace("CONSTANTS\n", "CONSTANTS\n  Names <- McNames\n  ScriptNext <- McNext\n")
    extra = {}
    if scripts:
        # the scripts as a trie: history key -> action keys that may follow (leaves: [])
        trie = {}
        for sc in scripts:
            k = "^"
            for a in sc:
                ak = act_key(a)
                nxt = trie.setdefault(k, [])
                if ak not in nxt:
                    nxt.append(ak)
                k = k + "|" + ak
            trie.setdefault(k, [])
        extra["scriptnext.json"] = json.dumps(trie)
        nxt = 'TLCEval(JsonDeserialize("scriptnext.json"))'
    else:
        nxt = "<<>>"
    extra["RuntimeMC.tla"] = "---- MODULE RuntimeMC ----\nEXTENDS Runtime\nMcNames == %s\nMcNext == %s\n====\n" % (
        vlib.tla_value(list(names)), nxt)
    return vlib.tlc(ctx, "RuntimeMC", t, extra_files=extra, label=label or ("Runtime-" + fam), **kw)


def check_coverage(res, fam):
    bad = [a for a in res.zero_cov if a not in UNUSED[fam]]
    if bad:
        raise vlib.InfraError("actions of Runtime.tla never taken in family %s: %s" % (fam, bad))


# ---------------------------------------------------------------------------
# TLC history -> harness case
# ---------------------------------------------------------------------------
def case_key(c):
    return json.dumps([c.get("assign"), [s["a"] for s in c["h"]]], sort_keys=True)


def ops_of(fam, a, running=()):
    src = SOURCES[fam]
    if a["op"] == "load":
        ops = [{"op": "write", "file": a["name"], "src": src[a["cid"]], "cid": a["cid"]}, {"op": "loadprog", "file": a["name"]}]
    elif a["op"] == "unload":
        ops = [{"op": "rm", "file": a["name"]}] + ([{"op": "unload", "file": a["name"]}] if a["name"] in running else [])
    elif a["op"] == "write":
        ops = [{"op": "write", "file": a["name"], "src": src[a["cid"]], "cid": a["cid"]}, {"op": "loadall"}]
    elif a["op"] == "rm":
        ops = [{"op": "rm", "file": a["name"]}, {"op": "loadall"}]
    elif a["op"] == "mv":
        ops = [{"op": "mv", "file": a["name"], "to": a["to"]}, {"op": "loadall"}]
    elif a["op"] == "mkdir":
        ops = [{"op": "mkdir", "file": a["name"], "src": src.get("v1", "")}, {"op": "loadall"}]
    elif a["op"] == "line":
        ops = [{"op": "line", "text": LINES[a["line"]]}]
    elif a["op"] == "gc":
        ops = [{"op": "gc"}]
    else:
        raise vlib.InfraError("unknown model action %r" % (a,))
    if fam == "C26" and a["op"] in ("write", "rm", "mv", "mkdir"):
        ops.append({"op": "line", "text": LINES["a"]})       # the probe line of the model's Probe action
    return ops


def concretise(fam, c, cdev=None, cid="", scope="", omit_source=False):
    steps = []
    for i, s in enumerate(c["h"]):
        running = [r["p"] for r in c["h"][i - 1]["obs"]["run"]] if i else []
        st = {"ops": ops_of(fam, s["a"], running), "want": s["obs"]}
        if cdev is not None and cdev["h"][i]["obs"] != s["obs"]:
            st["wantdev"] = cdev["h"][i]["obs"]
        steps.append(st)
    names = NAMES[fam] if not c.get("assign") else sorted(c["assign"].keys())
    return {"id": cid, "names": list(names), "scope": scope, "steps": steps, "omit_source": omit_source}


def describe(fam, c):
    """Short human-readable rendering of a history (for KNOWN-FINDING / VIOLATION lines)."""
    out = []
    for s in c["h"]:
        a = s["a"]
        if a["op"] == "write":
            out.append("write %s=%s+reload" % (a["name"], a["cid"]))
        elif a["op"] == "load":
            out.append("write %s=%s+LoadProgram" % (a["name"], a["cid"]))
        elif a["op"] == "unload":
            out.append("rm %s+UnloadProgram" % a["name"])
        elif a["op"] == "line":
            out.append("line %r" % LINES[a["line"]])
        elif a["op"] == "mv":
            out.append("mv %s %s+reload" % (a["name"], a["to"]))
        elif a["op"] in ("rm", "mkdir"):
            out.append("%s %s+reload" % (a["op"], a["name"]))
        else:
            out.append(a["op"] + (" " + a["name"] if a["name"] else ""))
    pre = ""
    if c.get("assign"):
        pre = "{" + ", ".join("%s=%s" % kv for kv in sorted(c["assign"].items())) + "} "
    return pre + "; ".join(out)


# ---------------------------------------------------------------------------
# replay
# ---------------------------------------------------------------------------
def _shards(items, n):
    n = max(1, min(n, len(items)))
    k = (len(items) + n - 1) // n
    return [items[i:i + k] for i in range(0, len(items), k)]


def replay(ctx, binary, fam, cases, cases_dev=None, scope="", what="", nproc=None, open_devs=(), omit_source=False):
    """Replays every TLC case on the real code.  Returns (n_ok, n_dev, n_bad)."""
    if not cases:
        raise vlib.InfraError("TLC emitted no cases (%s)" % what)
    devmap = {case_key(c): c for c in cases_dev} if cases_dev is not None else None
    if devmap is not None and set(devmap) != {case_key(c) for c in cases}:
        raise vlib.InfraError("corrected and deviating model enumerate different histories (%s)" % what)
    hc = []
    for i, c in enumerate(cases):
        d = devmap[case_key(c)] if devmap is not None else None
        hc.append(concretise(fam, c, d, cid=str(i), scope=scope, omit_source=omit_source))
    nproc = nproc or max(1, min(vlib.NCPU, 16))
    shards = _shards(hc, nproc if len(hc) >= 200 else 1)
    lock = threading.Lock()

    def run(sh):
        with lock:
            pass
        return vlib.run_harness(ctx, binary, cases=sh, timeout=3000)

    with ThreadPoolExecutor(max_workers=len(shards)) as ex:
        outs = list(ex.map(run, shards))
    n_ok = n_dev = n_bad = n_seen = 0
    fired_total = {}
    for recs in outs:
        summ = [r for r in recs if r.get("summary")]
        if not summ:
            raise vlib.InfraError("harness printed no summary (%s)" % what)
        n_seen += summ[0]["cases"]
        n_ok += summ[0]["ok"]
        for r in recs:
            if r.get("summary"):
                continue
            i = int(r["id"])
            if r["verdict"] == "dev":
                n_dev += 1
                fired = devmap[case_key(cases[i])].get("fired", []) if devmap is not None else []
                if not fired:
                    raise vlib.InfraError("case %s accepted only by the deviating model but no deviation fired: %s" % (
                        i, describe(fam, cases[i])))
                for f in fired:
                    cur = fired_total.get(f)
                    if cur is None or len(cases[i]["h"]) < len(cases[cur]["h"]):
                        fired_total[f] = i
            elif r["verdict"] == "mismatch":
                # confirm from a clean start (fresh process) before it counts
                again = vlib.run_harness(ctx, binary, cases=[hc[i]])
                bad = [x for x in again if x.get("verdict") == "mismatch"]
                if not bad:
                    dv = [x for x in again if x.get("verdict") == "dev"]
                    if dv:
                        n_dev += 1
                    else:
                        n_ok += 1
                    continue
                n_bad += 1
                b = bad[0]
                st = b.get("step", 0)
                want = hc[i]["steps"][st]["want"]
                ctx.violation(
                    {"family": fam, "history": describe(fam, cases[i]), "harness_case": hc[i],
                     "first_bad_step": st, "differs_in": b.get("why"), "got": b["got"][st], "want": want,
                     "open_deviations_tried": list(open_devs)},
                    "%s: after step %d of [%s] the real %s differs from spec/Runtime.tla (corrected design)%s" % (
                        fam, st + 1, describe(fam, cases[i]), b.get("why"),
                        (", and step %s differs in %s from the model with the open deviations %s" % (
                            b.get("step_dev", 0) + 1, b.get("why_dev"), ",".join(open_devs))) if open_devs else ""))
    if n_seen != len(hc):
        raise vlib.InfraError("harness processed %d of %d cases (%s)" % (n_seen, len(hc), what))
    ctx.cov["traces_validated_against_impl"] += len(hc)
    ctx.cov["evaluations"] += sum(len(c["steps"]) for c in hc)
    for dev, i in sorted(fired_total.items()):
        e = vlib.open_finding(ctx.prop, dev)
        if e is None:
            raise vlib.InfraError("deviation %s explained a replay but is not an open finding of %s" % (dev, ctx.prop))
        ctx.known_finding(dev, "%s [%s] witness: %s" % (e.get("what", ""), e.get("site", ""), json.dumps(e.get("witness"))))
    vlib.log("replay %s: %d cases, %d ok, %d explained by open deviations, %d violations" % (what, len(hc), n_ok, n_dev, n_bad))
    return n_ok, n_dev, n_bad


def replay_file(ctx, pkg, path):
    blob = json.load(open(path))
    if blob["case"].get("direction") == "B":
        direction_b(ctx, ctx.prop)
        return
    binary = vlib.build(ctx, pkg)
    hc = blob["case"]["harness_case"]
    recs = vlib.run_harness(ctx, binary, cases=[hc])
    for r in recs:
        if r.get("verdict") == "mismatch":
            st = r.get("step", 0)
            ctx.violation({"family": blob["case"].get("family"), "history": blob["case"].get("history"),
                           "harness_case": hc, "first_bad_step": st, "differs_in": r.get("why"),
                           "got": r["got"][st], "want": hc["steps"][st]["want"]},
                          "replay: step %d differs in %s" % (st + 1, r.get("why")))
        elif r.get("verdict") == "dev":
            vlib.log("replay: behaviour is explained by the deviating model")


def parallel(jobs, limit=5):
    """Run callables concurrently (at most `limit` at a time, in the given order); re-raise the first exception."""
    with ThreadPoolExecutor(max_workers=max(1, min(limit, len(jobs)))) as ex:
        futs = [ex.submit(j) for j in jobs]
        return [f.result() for f in futs]


# ---------------------------------------------------------------------------
# direction B: traces of the repository's own tests against spec/TraceRuntime.tla
# ---------------------------------------------------------------------------
TRACE_EVS = {"rt.load.unchanged", "rt.load.compile_error", "rt.load.add", "rt.load.registered", "rt.load.closed_old",
             "rt.load.swapped", "rt.unload", "rt.line.sent", "rt.line.recv", "vm.exit"}


def record_tests(ctx, plan, timeout=1500):
    """Runs the repository's own tests with the hooks on.  plan: list of (package, None | [test names]);
    with test names every test runs in a process of its own (one Runtime per trace segment - the hook
    events carry no Runtime identity).  Returns {segment id: [normalised events]}."""
    import subprocess
    d = ctx.sub("trace")
    tf = os.path.join(d, "trace.ndjson")
    env = vlib.goenv()
    env["VERIF_TRACE"] = tf
    for pkg, tests in plan:
        out = os.path.join(d, "test-" + pkg.strip("./").replace("/", "_"))
        cmd = ["go", "test", "-c", "-tags", "verif", "-vet=off", "-o", out, pkg]
        r = subprocess.run(cmd, cwd=ctx.repo, env=vlib.goenv(), capture_output=True, text=True)
        if r.returncode != 0 or not os.path.exists(out):
            raise vlib.InfraError("go test -c -tags verif %s failed:\n%s" % (pkg, (r.stdout + r.stderr)[-3000:]))
        runs = [["-test.run", "^%s$" % t] for t in tests] if tests else [[]]
        for extra in runs:
            try:
                subprocess.run([out, "-test.count=1", "-test.parallel=1"] + extra, cwd=os.path.join(ctx.repo, pkg), env=env,
                               capture_output=True, text=True, timeout=timeout)
            except subprocess.TimeoutExpired:
                raise vlib.InfraError("test binary of %s timed out while recording traces" % pkg)
    if not os.path.exists(tf):
        raise vlib.InfraError("the tests recorded no trace (VERIF_TRACE not honoured?)")
    segs = {}
    with open(tf) as f:
        for line in f:
            try:
                e = json.loads(line)
            except ValueError:
                raise vlib.InfraError("corrupt trace line %r" % line[:200])
            if e.get("ev") not in TRACE_EVS:
                continue
            segs.setdefault(e["pid"], []).append({
                "ev": e["ev"], "prog": e.get("prog") or "", "vm": e.get("vm") or "",
                "err": e.get("err") is not None and e["ev"] == "rt.load.add", "nprogs": int(e.get("nprogs", 0) or 0),
                "seq": e["seq"]})
    for evs in segs.values():
        evs.sort(key=lambda e: e["seq"])
    return segs


def validate_traces(ctx, seglist, label="TraceRuntime"):
    """seglist: list of event lists.  Returns the set of accepted segment numbers (1-based)."""
    d = ctx.sub("tracefiles")
    tf, sf = os.path.join(d, "events.ndjson"), os.path.join(d, "segs.ndjson")
    n = 0
    with open(tf, "w") as f, open(sf, "w") as g:
        for evs in seglist:
            first = n + 1
            for e in evs:
                f.write(json.dumps({k: e[k] for k in ("ev", "prog", "vm", "err", "nprogs")}) + "\n")
                n += 1
            g.write(json.dumps({"first": first, "last": n}) + "\n")
    cfg = ("SPECIFICATION TraceSpec\nCONSTANTS\n  TraceFile = \"%s\"\n  SegFile = \"%s\"\nINVARIANT Reached\n"
           "CHECK_DEADLOCK FALSE\n" % (tf, sf))
    r = vlib.tlc(ctx, "TraceRuntime", cfg, workers=2, timeout=1500, label=label)
    return {c["accept"] for c in r.cases if "accept" in c}


def stuck_at(ctx, evs):
    """Index (0-based) of the first event TraceRuntime.tla cannot consume in one rejected segment."""
    d = ctx.sub("tracediag")
    tf, sf = os.path.join(d, "events.ndjson"), os.path.join(d, "segs.ndjson")
    with open(tf, "w") as f:
        for e in evs:
            f.write(json.dumps({k: e[k] for k in ("ev", "prog", "vm", "err", "nprogs")}) + "\n")
    with open(sf, "w") as g:
        g.write(json.dumps({"first": 1, "last": len(evs)}) + "\n")
    cfg = ("SPECIFICATION TraceSpec\nCONSTANTS\n  TraceFile = \"%s\"\n  SegFile = \"%s\"\nINVARIANT Mark\n"
           "CHECK_DEADLOCK FALSE\n" % (tf, sf))
    r = vlib.tlc(ctx, "TraceRuntime", cfg, workers=1, timeout=1500, label="TraceRuntime-diagnosis")
    return max(c["at"] for c in r.cases) - 1


TRACE_PLAN = [("./internal/runtime", None),
              ("./internal/mtail", ["TestNewProg", "TestProgramReloadNoDuplicateMetrics", "TestProgramUnloadIfDeleted",
                                    "TestBadProgramFailsCompilation"])]


def direction_b(ctx, what, pkgs=TRACE_PLAN):
    """Record the repository's tests, validate every test process against TraceRuntime.tla, self-test the
    binding (a dropped and a corrupted event must be rejected).  A rejected segment is recorded again and
    only a reproduced rejection is a violation."""
    segs = record_tests(ctx, pkgs)
    seglist = [evs for _pid, evs in sorted(segs.items()) if evs]
    if not seglist:
        raise vlib.InfraError("no runtime events in the recorded traces of %s" % (pkgs,))
    # binding self-test on copies
    victim = next((evs for evs in seglist if any(e["ev"] == "rt.load.swapped" for e in evs)
                   and any(e["ev"] == "rt.line.sent" for e in evs)), None)
    tests = list(seglist)
    nself = 0
    if victim is not None:
        k = next(j for j, e in enumerate(victim) if e["ev"] == "rt.load.registered")
        tests.append(victim[:k] + victim[k + 1:])                             # a dropped event
        k = next(j for j, e in enumerate(victim) if e["ev"] == "rt.line.sent")
        tests.append(victim[:k] + [dict(victim[k], vm="0xdead")] + victim[k + 1:])   # a corrupted field
        nself = 2
    acc = validate_traces(ctx, tests)
    n = len(seglist)
    if nself and (n + 1 in acc or n + 2 in acc):
        raise vlib.InfraError("TraceRuntime.tla accepted a trace with a dropped/corrupted event: binding broken")
    nev = sum(len(e) for e in seglist)
    bad = [k for k in range(1, n + 1) if k not in acc]
    for k in bad:
        at = stuck_at(ctx, seglist[k - 1])
        # reproduce from a clean start
        segs2 = record_tests(ctx, pkgs)
        list2 = [evs for _pid, evs in sorted(segs2.items()) if evs]
        acc2 = validate_traces(ctx, list2, label="TraceRuntime-again")
        if len(acc2) == len(list2):
            vlib.log("direction B: a rejected trace was not reproduced (segment %d stopped at event %d)" % (k, at))
            continue
        ev = seglist[k - 1][at] if at < len(seglist[k - 1]) else None
        ctx.violation({"direction": "B", "packages": list(pkgs), "segment": k, "stopped_at": at, "event": ev,
                       "context": seglist[k - 1][max(0, at - 8):at + 1]},
                      "%s: a recorded trace of the repository's tests is not a behaviour of spec/TraceRuntime.tla: event %s" % (
                          what, json.dumps(ev)))
        break
    ctx.cov["traces_validated_against_impl"] += n
    ctx.sample({"direction": "B", "recorded_from": [p for p, _ in pkgs], "first_events": seglist[-1][:6]})
    ctx.cov["trace_events_validated"] = ctx.cov.get("trace_events_validated", 0) + nev
    vlib.log("direction B %s: %d test processes, %d events, %d accepted" % (what, n, nev, n - len(bad)))
    return n, nev
