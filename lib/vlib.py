"""Common machinery for the mtail TLA+ model-based checks (see DESIGN.md section 4).

Everything a per-property check (checks/cNN.py) needs:
  * Ctx          - property id, tier, seed, repo path, scratch dir, evidence
  * build()      - build a harness binary from $REPO's working tree through a
                   generated `go build -overlay` (adds files only)
  * tlc()        - run TLC on a module of /verif/spec in a scratch copy
  * cases()      - parse `<<"CASE", "<json>">>` lines printed by TLC
  * run_harness()- pipe ndjson cases into a harness binary, collect ndjson
  * findings     - known_findings.json protocol
  * violation()  - write a replay file and print the VIOLATION line

Exit codes of ./check: 0 held, 1 violation (VIOLATION line printed),
2 infrastructure error (ERROR line printed; never a verdict).
"""
import hashlib
import json
import os
import re
import shutil
import subprocess
import sys
import tempfile
import time

VERIF = os.path.dirname(os.path.dirname(os.path.abspath(__file__)))
REPO = os.environ.get("VERIF_REPO", "/repo")
SPEC = os.path.join(VERIF, "spec")
OVERLAY_SRC = os.path.join(VERIF, "harness", "overlay")
NCPU = int(os.environ.get("VERIF_WORKERS", "0") or 0) or os.cpu_count() or 4

GOENV = {
    # readonly: a harness importing a module that is not a direct requirement fails the build instead of
    # silently rewriting /repo/go.mod
    "GOFLAGS": "-mod=readonly",
    "GOPROXY": "off",
    "GOSUMDB": "off",
    "GOTOOLCHAIN": "local",
    "CGO_ENABLED": "1",
}


class InfraError(Exception):
    """Anything that prevents a verdict: build failure, TLC crash, timeout."""


def log(*a):
    print("[verif]", *a, file=sys.stderr, flush=True)


class Ctx:
    def __init__(self, prop, tier="quick", seed=None, replay=None, keep=False):
        self.prop = prop
        self.tier = tier
        self.seed = int(seed if seed is not None else os.environ.get("VERIF_SEED", "1") or 1)
        self.replay = replay
        self.keep = keep
        self.repo = REPO
        self.t0 = time.time()
        self.scratch = tempfile.mkdtemp(prefix="verif-%s-" % prop)
        self.violations = []          # list of replay paths
        self.compiler_reuse = []      # records of mlang.Compile's long-lived-compiler comparison (report_compiler_reuse)
        self.known = []               # KNOWN-FINDING lines printed
        self.cov = {                  # evidence coverage accumulators
            "states": 0, "transitions": 0, "traces_validated_against_impl": 0,
            "evaluations": 0, "distinct_nontrivial": 0, "samples": [],
            "tlc_runs": [], "exhaustive": False,
        }
        self.assumptions = []
        self.level = "model_checking"
        self._n = 0

    @property
    def thorough(self):
        return self.tier == "thorough"

    def sub(self, name):
        self._n += 1
        d = os.path.join(self.scratch, "%02d-%s" % (self._n, name))
        os.makedirs(d, exist_ok=True)
        return d

    def cleanup(self):
        if self.keep:
            log("scratch kept at", self.scratch)
        else:
            shutil.rmtree(self.scratch, ignore_errors=True)

    # ---- evidence -------------------------------------------------------
    def sample(self, obj, limit=6):
        if len(self.cov["samples"]) < limit:
            self.cov["samples"].append(obj)

    def write_evidence(self):
        cov = dict(self.cov)
        if not cov["samples"]:
            cov["samples"] = ["(no case reached the sampling point)"]
        ev = {
            "property_id": self.prop,
            "tier": self.tier,
            "seed": self.seed,
            "level": self.level,
            "coverage": cov,
            "assumptions": self.assumptions,
            "wall_s": round(time.time() - self.t0, 2),
            "violations": getattr(self, "violation_count", 0),
            "known_findings_reported": self.known,
        }
        # evidence under /verif/evidence always describes /repo itself; runs against another tree
        # (VERIF_REPO=<scratch worktree>, e.g. seeded changes) leave it alone
        edir = os.path.join(VERIF, "evidence") if os.path.realpath(self.repo) == "/repo" else os.path.join(VERIF, ".scratch", "evidence-other-tree")
        os.makedirs(edir, exist_ok=True)
        p = os.path.join(edir, "%s.json" % self.prop)
        tmp = p + ".tmp%d" % os.getpid()
        with open(tmp, "w") as f:
            json.dump(ev, f, indent=1, sort_keys=True, default=str)
            f.write("\n")
        os.replace(tmp, p)

    # ---- verdicts -------------------------------------------------------
    def violation(self, case, what):
        """Record a real-code violation. `case` must be self-contained."""
        blob = json.dumps({"property": self.prop, "what": what, "case": case,
                           "tier": self.tier, "seed": self.seed}, sort_keys=True, default=str)
        h = hashlib.sha1(blob.encode()).hexdigest()[:12]
        self.violation_count = getattr(self, "violation_count", 0) + 1
        if len(self.violations) >= 5:      # enough replay files; keep counting
            return
        os.makedirs(os.path.join(VERIF, "replays"), exist_ok=True)
        path = os.path.join(VERIF, "replays", "%s-%s.json" % (self.prop, h))
        with open(path, "w") as f:
            f.write(blob + "\n")
        if path not in self.violations:
            self.violations.append(path)
            print("VIOLATION property=%s replay=%s" % (self.prop, path), flush=True)
            log("violation:", what)

    def enough(self):
        """True once 5 violations are on record: further mismatches need not be re-confirmed one by one."""
        return getattr(self, "violation_count", 0) >= 5

    def known_finding(self, dev, what):
        line = "KNOWN-FINDING: property=%s %s: %s" % (self.prop, dev, what)
        if line not in self.known:
            self.known.append(line)
            print(line, flush=True)


# ---------------------------------------------------------------------------
# known findings
# ---------------------------------------------------------------------------
def load_findings(prop=None):
    p = os.path.join(VERIF, "known_findings.json")
    if not os.path.exists(p):
        return []
    with open(p) as f:
        ents = json.load(f)["findings"]
    return [e for e in ents if prop is None or e["property"] == prop]


def open_devs(prop):
    """Deviation switches that are *open* findings for this property."""
    return sorted({e["deviation"] for e in load_findings(prop) if e["status"] == "open"})


def open_finding(prop, dev):
    for e in load_findings(prop):
        if e["deviation"] == dev and e["status"] == "open":
            return e
    return None


# ---------------------------------------------------------------------------
# Go harness build (overlay)
# ---------------------------------------------------------------------------
def _overlay(ctx):
    repl = {}
    for root, _dirs, files in os.walk(OVERLAY_SRC):
        for fn in files:
            src = os.path.join(root, fn)
            rel = os.path.relpath(src, OVERLAY_SRC)
            dst = os.path.join(ctx.repo, rel)
            if os.path.exists(dst):
                raise InfraError("overlay would replace existing repo file %s" % dst)
            repl[dst] = src
    p = os.path.join(ctx.scratch, "overlay.json")
    with open(p, "w") as f:
        json.dump({"Replace": repl}, f)
    return p


def goenv():
    e = dict(os.environ)
    e.update(GOENV)
    return e


def build(ctx, pkg, race=False, tags="verif", test=False, name=None):
    """Build ./internal/verif/<pkg> of the overlaid module; returns binary path."""
    ov = _overlay(ctx)
    out = os.path.join(ctx.scratch, "bin-" + (name or pkg.replace("/", "_")) + ("-race" if race else ""))
    cmd = ["go", "test", "-c"] if test else ["go", "build"]
    cmd += ["-tags", tags, "-overlay", ov, "-o", out]
    if race:
        cmd.append("-race")
    cmd.append("./internal/verif/" + pkg if not pkg.startswith("./") else pkg)
    t = time.time()
    r = subprocess.run(cmd, cwd=ctx.repo, env=goenv(), capture_output=True, text=True)
    if r.returncode != 0:
        raise InfraError("harness build failed (%s):\n%s" % (" ".join(cmd), r.stderr[-4000:]))
    log("built %s in %.1fs" % (pkg, time.time() - t))
    return out


def harness_env(ctx):
    """Environment of a harness process: its temporary files (mtail's glog files, sockets, scratch directories) go under the
    check's own scratch directory, which is removed when the check ends - not into /tmp."""
    e = goenv()
    t = os.path.join(ctx.scratch, "t")
    os.makedirs(t, exist_ok=True)
    e["TMPDIR"] = t
    return e


def run_harness(ctx, binary, args=(), cases=None, timeout=600, env=None, infile=None):
    """Run a harness binary; `cases` (iterable of dicts) are written as ndjson on
    stdin.  Returns list of parsed ndjson output records."""
    e = harness_env(ctx)
    e["VERIF_SEED"] = str(ctx.seed)
    if env:
        e.update(env)
    stdin_path = infile
    if cases is not None:
        stdin_path = os.path.join(ctx.sub("in"), "cases.ndjson")
        with open(stdin_path, "w") as f:
            for c in cases:
                f.write(json.dumps(c, separators=(",", ":")) + "\n")
    fin = open(stdin_path) if stdin_path else subprocess.DEVNULL
    try:
        r = subprocess.run([binary] + list(args), stdin=fin, env=e, capture_output=True,
                           text=True, timeout=timeout, cwd=ctx.scratch)
    except subprocess.TimeoutExpired:
        raise InfraError("harness %s timed out after %ss" % (binary, timeout))
    finally:
        if stdin_path:
            fin.close()
    out = []
    for line in r.stdout.splitlines():
        line = line.strip()
        if line.startswith("{"):
            try:
                rec = json.loads(line)
            except ValueError:
                continue
            if isinstance(rec, dict) and "compiler_reuse" in rec and len(rec) == 1:
                ctx.compiler_reuse.append(rec["compiler_reuse"])      # see report_compiler_reuse
                continue
            out.append(rec)
    if r.returncode != 0:
        raise InfraError("harness %s exited %d:\n%s\n%s%s" % (
            os.path.basename(binary), r.returncode, r.stdout[-2000:],
            (r.stderr[:700] + "\n[...]\n") if len(r.stderr) > 4700 else "", r.stderr[-4000:]))
    return out


def report_compiler_reuse(ctx):
    """mlang.Compile compiles every source also on a long-lived compiler that has compiled (and refused) other sources
    before, as the program loader does.  A different result that the harness reproduced from a clean start with the
    two-step sequence (last refused source, this source) is a violation of every property that speaks about what
    compiling a program yields; unreproduced differences are only counted."""
    recs = ctx.compiler_reuse
    ctx.cov["compiles_repeated_on_a_used_compiler"] = True
    if not recs:
        return
    ctx.cov["compiler_reuse_differences"] = {"reproduced": sum(1 for r in recs if r.get("reproduced")), "unreproduced": sum(1 for r in recs if not r.get("reproduced"))}
    for r in [x for x in recs if x.get("reproduced")][:2]:
        ctx.violation({"kind": "compiler_reuse", **r},
                      "the same source compiles differently on a compiler that has refused another program before: after %r, "
                      "%r gives %s where a fresh compiler gives %s" % (r["prev_source"][-120:], r["source"][-160:], r["reused_again"][:160], r["fresh"][:160]))


# ---------------------------------------------------------------------------
# TLC
# ---------------------------------------------------------------------------
def cfg_text(spec=None, init=None, next_=None, constants=None, invariants=(), properties=(),
             view=None, constraint=None, action_constraint=None, postcondition=None,
             check_deadlock=False, symmetry=None):
    L = []
    if spec:
        L.append("SPECIFICATION %s" % spec)
    else:
        L.append("INIT %s" % (init or "Init"))
        L.append("NEXT %s" % (next_ or "Next"))
    if constants:
        L.append("CONSTANTS")
        for k, v in constants.items():
            L.append("  %s = %s" % (k, tla_value(v)))
    for i in invariants:
        L.append("INVARIANT %s" % i)
    for p in properties:
        L.append("PROPERTY %s" % p)
    if view:
        L.append("VIEW %s" % view)
    if constraint:
        L.append("CONSTRAINT %s" % constraint)
    if action_constraint:
        L.append("ACTION_CONSTRAINT %s" % action_constraint)
    if postcondition:
        L.append("POSTCONDITION %s" % postcondition)
    if symmetry:
        L.append("SYMMETRY %s" % symmetry)
    L.append("CHECK_DEADLOCK %s" % ("TRUE" if check_deadlock else "FALSE"))
    return "\n".join(L) + "\n"


def tla_value(v):
    if isinstance(v, bool):
        return "TRUE" if v else "FALSE"
    if isinstance(v, int):
        return str(v)
    if isinstance(v, str):
        if v.startswith("="):          # raw TLA+ text, e.g. "={1,2}"
            return v[1:]
        return '"%s"' % v
    if isinstance(v, (list, tuple)):
        return "<<" + ", ".join(tla_value(x) for x in v) + ">>"
    if isinstance(v, (set, frozenset)):
        return "{" + ", ".join(tla_value(x) for x in sorted(v, key=str)) + "}"
    raise ValueError("cannot render %r" % (v,))


_STATS = re.compile(r"(\d+) states generated, (\d+) distinct states found")
_SIMSTATS = re.compile(r"The number of states generated: (\d+)")


class TlcResult:
    def __init__(self):
        self.stdout = ""
        self.generated = 0
        self.distinct = 0
        self.ok = False               # finished with no error
        self.violated = None          # name of violated invariant/property, if any
        self.cases = []               # parsed CASE payloads
        self.trace_text = ""
        self.wall = 0.0
        self.zero_cov = []


def tlc(ctx, module, cfg, workers=None, timeout=900, simulate=None, depth=None, seed=None,
        coverage=False, extra_files=None, extra_args=(), heap=None, expect_violation=False,
        deque=False, label=None, parse_cases=True, case_sink=None):
    """Run TLC on spec/<module>.tla with the given cfg text in a scratch copy.

    simulate: None for exhaustive BFS, else number of behaviours (num=N).
    case_sink: optional callable(dict) invoked per CASE instead of collecting.
    Raises InfraError on crash/timeout; a violated invariant is returned in
    result.violated (callers decide what that means - never a verdict by
    itself, DESIGN 2.4)."""
    d = ctx.sub("tlc-" + (label or module))
    for fn in os.listdir(SPEC):
        if fn.endswith(".tla"):
            shutil.copy(os.path.join(SPEC, fn), d)
    for name, text in (extra_files or {}).items():
        with open(os.path.join(d, name), "w") as f:
            f.write(text)
    with open(os.path.join(d, module + ".cfg"), "w") as f:
        f.write(cfg)
    w = workers or (1 if simulate else NCPU)
    jtmp = os.path.join(d, "jtmp")          # TLC leaves a tlc-* directory in java.io.tmpdir on every run
    os.makedirs(jtmp, exist_ok=True)
    cmd = ["timeout", str(timeout), "java", "-XX:+UseParallelGC", "-Xss256m", "-Djava.io.tmpdir=" + jtmp]
    if heap:
        cmd.append("-Xmx%s" % heap)
    if deque:
        cmd.append("-Dtlc2.tool.queue.IStateQueue=StateDeque")
    cmd += ["-cp", "/opt/veriftools/tla/tla2tools.jar:/opt/veriftools/tla/CommunityModules-deps.jar",
            "tlc2.TLC", "-workers", str(w), "-metadir", os.path.join(d, "meta"),
            "-config", module + ".cfg"]
    if simulate:
        cmd += ["-simulate", "num=%d" % simulate, "-depth", str(depth or 100),
                "-seed", str(seed if seed is not None else ctx.seed)]
    if coverage:
        cmd += ["-coverage", "1"]
    cmd += list(extra_args)
    cmd.append(module + ".tla")
    t = time.time()
    res = TlcResult()
    env = dict(os.environ)
    env.pop("JAVA_TOOL_OPTIONS", None)
    p = subprocess.Popen(cmd, cwd=d, stdout=subprocess.PIPE, stderr=subprocess.STDOUT,
                         text=True, env=env, errors="replace")
    keep = []
    for line in p.stdout:
        if line.startswith('<<"CASE", "'):
            if not parse_cases:
                continue
            try:
                s = line.rstrip()
                inner = json.loads(s[len('<<"CASE", '):-2])
                c = json.loads(inner)
            except ValueError as e:
                raise InfraError("unparseable CASE line from TLC: %r (%s)" % (line[:200], e))
            if case_sink:
                case_sink(c)
            else:
                res.cases.append(c)
            continue
        keep.append(line)
    rc = p.wait()
    res.wall = time.time() - t
    out = "".join(keep)
    res.stdout = out
    m = None
    for m in _STATS.finditer(out):
        pass
    if m:
        res.generated, res.distinct = int(m.group(1)), int(m.group(2))
    else:
        m2 = _SIMSTATS.search(out)
        if m2:
            res.generated = res.distinct = int(m2.group(1))
    if coverage:
        res.zero_cov = re.findall(r"^<(\w+) line[^\n]*>: 0:0$", out, flags=re.M)
    vm = re.search(r"Error: Invariant (\w+) is violated", out)
    pm = re.search(r"Error: (?:Temporal properties were violated|Temporal property (\w+) was violated|Action property (\w+) is violated)", out)
    pc = re.search(r"Error: (?:The postcondition|Evaluating.*postcondition|POSTCONDITION)[^\n]*", out)
    if "Deadlock reached" in out:
        res.violated = "Deadlock"
    if vm:
        res.violated = vm.group(1)
    elif pm:
        res.violated = pm.group(1) or pm.group(2) or "TemporalProperty"
    elif re.search(r"Postcondition .*violated|postcondition was violated|Error: The postcondition", out, re.I):
        res.violated = "Postcondition"
    if res.violated:
        i = out.find("Error:")
        res.trace_text = out[i:i + 6000]
    finished = ("Model checking completed. No error has been found." in out) or \
               (simulate and rc in (0,) )
    res.ok = bool(finished) and not res.violated and rc == 0
    ctx.cov["tlc_runs"].append({
        "module": module, "label": label or module, "generated": res.generated,
        "distinct": res.distinct, "wall_s": round(res.wall, 1), "mode": "simulate" if simulate else "bfs",
        "violated": res.violated, "cases": len(res.cases)})
    ctx.cov["states"] += res.distinct
    ctx.cov["transitions"] += res.generated
    if rc == 124:
        raise InfraError("TLC timed out after %ss on %s" % (timeout, module))
    if not res.ok and not res.violated:
        raise InfraError("TLC failed on %s (rc=%d):\n%s" % (module, rc, out[-3000:]))
    if res.violated and not expect_violation:
        # model-level counterexample on the corrected design: spec/bounds broken,
        # not a verdict about the code (DESIGN 2.4)
        raise InfraError("TLC reports %s violated on %s (corrected design) - model error:\n%s" % (
            res.violated, module, res.trace_text[-3000:]))
    log("tlc %s: %d generated / %d distinct, %d cases, %.1fs%s" % (
        label or module, res.generated, res.distinct, len(res.cases), res.wall,
        (" VIOLATED " + res.violated) if res.violated else ""))
    return res


def expect_dev_counterexample(ctx, module, cfg, dev, **kw):
    """DESIGN 4.4 step 1: with an open deviation ON, TLC must find a counterexample."""
    r = tlc(ctx, module, cfg, expect_violation=True, label="%s-dev-%s" % (module, dev), **kw)
    if not r.violated:
        raise InfraError("deviation %s switched on but TLC found no counterexample: the deviation is mis-modelled" % dev)
    return r


def sany_all():
    bad = []
    for fn in sorted(os.listdir(SPEC)):
        if fn.endswith(".tla"):
            r = subprocess.run(["tla-sany", fn], cwd=SPEC, capture_output=True, text=True)
            if r.returncode != 0 or "Semantic errors" in r.stdout or "***Parse Error***" in r.stdout or "Fatal errors" in r.stdout:
                bad.append((fn, r.stdout[-1500:]))
    return bad


def stable_hash(obj):
    return hashlib.sha1(json.dumps(obj, sort_keys=True, default=str).encode()).hexdigest()[:16]
