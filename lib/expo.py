"""Shared machinery of the exposition checks C13 and C22 (spec/Expo.tla): TLC
configurations (exhaustive presets and the -simulate preset), sharded replay
through a harness binary, verdict bookkeeping.  Owned by checks/c13.py, c22.py."""
import json
import os
from concurrent.futures import ThreadPoolExecutor

import vlib

DEVS = ["DEV_CollectDropsRestOfMetric", "DEV_FamilyHelpFromSource", "DEV_WriteNeedsEqualKeys",
        "DEV_GraphiteHistogramFirstLabelSet", "DEV_JsonFailsOnNonFinite"]
KT_ALL = ["CounterInt", "CounterFloat", "GaugeInt", "GaugeFloat", "TimerInt", "TimerFloat", "TextString", "HistogramBuckets"]
KT_SCALAR = KT_ALL[:6]
INT_TOKS = ["neg", "zero", "small", "huge"]
FLOAT_TOKS = ["neg", "zero", "small", "huge", "nan", "pinf", "ninf"]


def _S(xs):
    return "={" + ", ".join('"%s"' % x for x in xs) + "}"


def _N(xs):
    return "={" + ", ".join(str(x) for x in xs) + "}"


def constants(mode, random=False, emit=True, devs=(), explain=(), mm=1, ml=2, mk=1, mo=1, names=("foo",), progs=("p1",), kts=KT_ALL,
              keys=("k1",), lvals=("a",), itoks=("small",), ftoks=("small",), bounds=("b12",), obs=(0, 3),
              hosts=("h",), prefixes=("",), shared=False, epoch=False):
    c = {"MaxMetrics": mm, "MaxLsets": ml, "MaxKeys": mk, "MaxObs": mo,
         "Names": _S(names), "Progs": _S(progs), "KindTypeNames": _S(kts), "KeyNames": _S(keys), "LabelVals": _S(lvals),
         "IntToks": _S(itoks), "FloatToks": _S(ftoks), "BoundNames": _S(bounds), "ObsVals": _N(obs),
         "Hosts": _S(hosts), "Prefixes": _S(prefixes), "Mode": mode, "Random": random, "EmitCases": emit,
         "SharedNames": shared, "EpochTs": epoch}
    for d in DEVS:
        c[d] = d in devs
    c["Explain"] = _S(sorted(explain))
    return c


def cfg(const, invariants):
    return vlib.cfg_text(spec="Spec", constants=const, invariants=list(invariants), check_deadlock=False)


def store_key(c):
    return json.dumps([c["store"], c["cfg"]], sort_keys=True, separators=(",", ":"))


def n_labelsets(c):
    return sum(len(m["lsets"]) for m in c["store"])


def run_sharded(ctx, binary, cases, chunk=400, timeout=1200):
    """cases must carry distinct "id"s; returns {id: record}.  Fresh process per shard."""
    d = ctx.sub("expo-in")
    chunks = [cases[i:i + chunk] for i in range(0, len(cases), chunk)]
    paths = []
    for n, ch in enumerate(chunks):
        p = os.path.join(d, "cases-%04d.ndjson" % n)
        with open(p, "w") as f:
            for c in ch:
                f.write(json.dumps(c, separators=(",", ":")) + "\n")
        paths.append(p)
    with ThreadPoolExecutor(max_workers=max(1, min(vlib.NCPU, 8))) as ex:
        outs = list(ex.map(lambda p: vlib.run_harness(ctx, binary, infile=p, timeout=timeout), paths))
    res = {}
    for ch, recs in zip(chunks, outs):
        summ = [r for r in recs if r.get("summary")]
        if not summ or summ[0]["cases"] != len(ch):
            raise vlib.InfraError("harness did not process all cases of a shard")
        for r in recs:
            if "id" in r:
                res[r["id"]] = r
    if len(res) != len(cases):
        raise vlib.InfraError("harness answered %d of %d cases" % (len(res), len(cases)))
    return res


def collect(ctx, runs, coverage_first=False):
    """runs: list of (label, constants, invariants, simulate or None, depth).  Returns the de-duplicated cases."""
    seen, out = set(), []
    for n, (label, const, invs, sim, depth) in enumerate(runs):
        cov = coverage_first and n == 0 and not sim
        r = vlib.tlc(ctx, "Expo", cfg(const, invs), label=label, simulate=sim, depth=depth, timeout=2400,
                     seed=ctx.seed * 1000003 + len(out) if sim else None, coverage=cov)
        if cov and r.zero_cov:
            raise vlib.InfraError("actions never taken in Expo (%s): %s" % (label, r.zero_cov))
        if not r.cases:
            raise vlib.InfraError("TLC printed no case (%s)" % label)
        for c in r.cases:
            k = store_key(c)
            if k not in seen:
                seen.add(k)
                c["id"] = len(out)
                c["origin"] = label
                out.append(c)
    return out
