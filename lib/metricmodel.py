"""Shared machinery of the checks on spec/Metric.tla (C08, C09).

  * mc_module()/cfg(): TLC's cfg syntax has no tuples, so universes of label
    tuples are defined in a generated MCMetric.tla and substituted with `<-`.
  * Graph: the state graph TLC prints in Mode "graph" (one CASE per state with
    all its outgoing transitions).  The model is the only oracle: this module
    merely *selects paths* (a transition-covering set of walks from the initial
    state) and, for the findings protocol, walks a second graph (the model with
    the open deviations on) along the calls of a path to see whether it explains
    what the real code did.
"""
import collections
import json

import vlib

CHARS = {"a": "a", "-": "-", "\\": "\\", "F": "\xff"}   # model character -> concrete byte (documented in the evidence)


def tla_str(s):
    return "<<" + ", ".join('"%s"' % c.replace("\\", "\\\\") for c in s) + ">>"


def tla_tuple(t):
    return "<<" + ", ".join(tla_str(s) for s in t) + ">>"


def tla_tuples(ts):
    return "<<" + ", ".join(tla_tuple(t) for t in ts) + ">>"


def mc_module(tuples, bad, expiries=(1,), vtypes=("Int",), alphabet=("a", "-", "\\"), keydomains=((2, 2),), wide=None):
    return ("---- MODULE MCMetric ----\nEXTENDS Metric\n"
            "MCTuples == %s\nMCBad == %s\nMCExp == {%s}\nMCVTypes == {%s}\nMCWide == {%s}\nMCAlpha == {%s}\nMCKeyDomains == {%s}\n====\n" % (
                tla_tuples(tuples), tla_tuples(bad), ", ".join(str(e) for e in expiries),
                ", ".join('"%s"' % v for v in vtypes),
                ", ".join('"%s"' % v for v in (vtypes if wide is None else wide)),
                ", ".join('"%s"' % c.replace("\\", "\\\\") for c in alphabet),
                ", ".join("<<%d, %d>>" % d for d in keydomains)))


def cfg(mode, dev=False, arity=2, maxts=1, valbound=1, walklen=10, invariants=(), init="Init", next_="Next", view=None):
    L = ["INIT %s" % init, "NEXT %s" % next_, "CONSTANTS",
         "  Tuples <- MCTuples", "  BadTuples <- MCBad", "  Expiries <- MCExp", "  VTypes <- MCVTypes", "  WideTypes <- MCWide",
         "  Alphabet <- MCAlpha", "  KeyDomains <- MCKeyDomains",
         "  DEV_BackslashNotEscaped = %s" % ("TRUE" if dev else "FALSE"),
         "  Arity = %d" % arity, "  MaxTs = %d" % maxts, "  ValBound = %d" % valbound, '  Mode = "%s"' % mode, "  WalkLen = %d" % walklen]
    L += ["INVARIANT %s" % i for i in invariants]
    if view:
        L.append("VIEW %s" % view)
    L.append("CHECK_DEADLOCK FALSE")
    return "\n".join(L) + "\n"


STATE_INVS = ["TypeOK", "IndexOK", "Refines", "EmitOnce", "DistinctData"]
STEP_INVS = ["ResultAgrees", "RejectedUnchanged", "OthersUntouched"]


def concrete(s):
    """model string (list of one-character strings) -> concrete Go string, as a list of byte values"""
    return [ord(CHARS.get(c, c)) for c in s]


# ---------------------------------------------------------------------------
def dumps(x):
    return json.dumps(x, sort_keys=True, separators=(",", ":"))


def okey(o):
    c = o["c"]
    return (c["op"], c["t"], c["u"]["f"], c["u"]["a"], c["ts"], c["e"])


class Graph:
    """The state graph printed by TLC in Mode "graph".  Kept as strings to stay small:
    node key = vtype + "|" + canonical JSON of Proj(M); edges[key] = list of
    (call key, JSON of the observation record, post node key)."""

    def __init__(self):
        self.edges = {}
        self.init = {}          # vtype -> key of the empty metric
        self.nedges = 0

    def add(self, case):
        v = case["v"]
        k = v + "|" + dumps(case["s"])
        out = [(okey(e["o"]), dumps(e["o"]), v + "|" + dumps(e["s"])) for e in case["out"]]
        out.sort()
        self.edges[k] = out
        self.nedges += len(out)
        if not case["s"]["l"] and case["s"]["n"] == 0:
            self.init[v] = k

    def check_closed(self):
        for out in self.edges.values():
            for _c, _o, pk in out:
                if pk not in self.edges:
                    raise vlib.InfraError("graph emitted by TLC is not closed (missing node %s)" % pk[:200])

    def step(self, k, call):
        for c, o, pk in self.edges.get(k, ()):
            if c == call:
                return o, pk
        return None

    def cover(self, v, maxlen=60):
        """Transition-covering set of walks from the initial state of vtype v: every
        edge reachable from the initial state lies on at least one walk.  Each walk is
        the BFS-tree path from the initial state to a node that still has unvisited
        edges, followed greedily along unvisited edges until none is left at the
        current node or maxlen further steps were taken."""
        init = self.init[v]
        paths = self._bfs_paths(init)                  # node -> tuple of (node, edge index) from init
        todo = {k: list(range(len(self.edges[k]) - 1, -1, -1)) for k in paths}
        walks = []
        for start in paths:                            # BFS order: short prefixes first
            while todo[start]:
                walk = list(paths[start])
                cur = start
                n = 0
                while todo[cur] and n < maxlen:
                    i = todo[cur].pop()
                    walk.append((cur, i))
                    cur = self.edges[cur][i][2]
                    n += 1
                walks.append(walk)
        return walks

    def random_walk(self, v, rnd, n):
        k, walk = self.init[v], []
        for _ in range(n):
            out = self.edges[k]
            i = rnd.randrange(len(out))
            walk.append((k, i))
            k = out[i][2]
        return walk

    def _bfs_paths(self, init):
        paths, q = {init: ()}, collections.deque([init])
        while q:
            k = q.popleft()
            for i, (_c, _o, pk) in enumerate(self.edges[k]):
                if pk not in paths:
                    paths[pk] = paths[k] + ((k, i),)
                    q.append(pk)
        return paths

    def walk_json(self, v, walk):
        """render a walk [(node, edge index)] as one harness case (JSON text)"""
        steps = []
        for (k, i) in walk:
            _c, o, pk = self.edges[k][i]
            steps.append('{"o":%s,"s":%s}' % (o, pk.split("|", 1)[1]))
        return '{"v":"%s","walk":[%s]}' % (v, ",".join(steps))


def norm_state(s):
    return dumps({"l": s["l"], "x": s["x"], "n": s["n"]})


def explains(graph, v, steps, actual):
    """Is what the real code did (actual[i] = {err, created, pos, s} for the calls
    steps[i].o.c, up to and including the first step where it left the corrected
    model) exactly a path of `graph`, the model with the open deviations on?"""
    k = graph.init.get(v)
    if k is None:
        return False
    for st, a in zip(steps, actual):
        r = graph.step(k, okey(st["o"]))
        if r is None:
            return False
        eo, pk = r
        eo = json.loads(eo)
        op = st["o"]["c"]["op"]
        if eo["err"] != a["err"]:
            return False
        if op in ("get", "update") and eo["created"] != a["created"]:
            return False
        if op in ("get", "update", "expire") and eo["pos"] != a["pos"]:
            return False
        if pk.split("|", 1)[1] != norm_state(a["s"]):
            return False
        k = pk
    return True


def header(tuples, bad, arity):
    return {"header": True, "arity": arity, "nt": len(tuples),
            "tuples": [[concrete(s) for s in t] for t in list(tuples) + list(bad)]}


def replay_walks(ctx, binary, args, hdr, lines, what, dev_graph=None, describe=None):
    """Pipe walks (JSON texts) into the harness.  A walk on which the real metric
    leaves the corrected model is re-executed alone from a clean start; if it still
    does, it is explained by dev_graph() (the model with the open deviations of this
    property switched on: known finding) or reported as a violation.
    Returns (walks, steps, list of (case, why) explained by the deviation graph)."""
    import os
    if not lines:
        raise vlib.InfraError("no walks to replay for %s" % what)
    path = os.path.join(ctx.sub("walks"), "walks.ndjson")
    with open(path, "w") as f:
        f.write(dumps(hdr) + "\n")
        for ln in lines:
            f.write(ln + "\n")
    recs = vlib.run_harness(ctx, binary, args=args, infile=path, timeout=1800)
    summ = [r for r in recs if r.get("summary")]
    if not summ or summ[0]["cases"] != len(lines):
        raise vlib.InfraError("harness did not process all walks (%s)" % what)
    ctx.cov["traces_validated_against_impl"] += len(lines)
    ctx.cov["evaluations"] += summ[0]["steps"]
    explained = []
    bad = [r for r in recs if r.get("mismatch")]
    if bad:
        # every walk starts from a fresh metric: re-execute the failing ones alone before believing them
        again = vlib.run_harness(ctx, binary, args=args, cases=[hdr] + [r["case"] for r in bad])
        bad = [x for x in again if x.get("mismatch")]
    g = dev_graph() if (bad and dev_graph) else None
    for r in bad:
        steps = r["case"]["walk"][: r["step"] + 1]
        if g is not None and explains(g, r["case"]["v"], steps, r["actual"]):
            explained.append((r, r["why"]))
            continue
        calls = [st["o"]["c"] for st in steps]
        ctx.violation({"universe": hdr, "case": {"v": r["case"]["v"], "walk": steps}, "why": r["why"],
                       "calls": [describe(c) if describe else c for c in calls]},
                      "metric leaves the specification at step %d of %s: %s" % (r["step"], what, r["why"]))
    return len(lines), summ[0]["steps"], explained
