"""Shared driver for the properties decided with MtailLang.tla / MtailGen.tla (C01 C02 C05 C07)."""
import json
import vlib
import langlib

DEVS = ["DEV_OtherwiseFlagIsGlobal", "DEV_MemoKeyedByValueOnly", "DEV_MemoCachesFailure"]


def gen_cfg(profile, lo=1, hi=1, seedset=(), devs=(), year=False, invariants=("Emit",)):
    consts = {"SeedLo": lo, "SeedHi": hi, "SeedSet": set(seedset), "Profile": profile, "YearOpt": year}
    for d in DEVS:
        consts[d] = d in devs
    return vlib.cfg_text(spec="Spec", constants=consts, invariants=list(invariants))


def generate(ctx, profile, lo=1, hi=1, seedset=(), devs=(), label=None, year=False, invariants=("Emit",)):
    r = vlib.tlc(ctx, "MtailGen", gen_cfg(profile, lo, hi, seedset, devs, year, invariants), workers=4,
                 label=label or ("MtailGen-%s%s" % (profile, "-dev" if devs else "")), timeout=2400, heap="12g")
    return r.cases


def replay(ctx, binary, cases, opt="on", extra=None, fresh=False):
    if extra:
        cases = [dict(c, **extra) for c in cases]
    recs = vlib.run_harness(ctx, binary, args=["-opt", opt] + (["-fresh"] if fresh else []), cases=cases, timeout=2400)
    by = {x["seed"]: x for x in recs if "seed" in x}
    for c in cases:
        if c["seed"] not in by:
            raise vlib.InfraError("no harness record for seed %d" % c["seed"])
    return by


def features(case):
    """Set of language features a case exercises (for the distinct/non-trivial count)."""
    fs = set()

    def walk(n):
        if isinstance(n, dict):
            k = n.get("n")
            if k == "bin":
                fs.add("op" + n["op"])
            elif k == "call":
                fs.add("fn" + n["f"])
            elif k:
                fs.add(k)
            for v in n.values():
                walk(v)
        elif isinstance(n, list):
            for v in n:
                walk(v)
    walk(case["prog"]["body"])
    walk(case["prog"]["decos"])
    return fs


def nontrivial(case):
    """A case is non-trivial when at least one line changed a metric or raised a runtime error."""
    prev = None
    for e in case["exp"]:
        cur = json.dumps(e["m"], sort_keys=True)
        if e["err"] or (prev is not None and cur != prev):
            return True
        prev = cur
    return False


LANG_PROPS = ["C01", "C02", "C05", "C07"]      # properties decided with the MtailLang reference semantics


def lang_open_devs():
    """Open deviations of the reference semantics, whichever language property they are filed under."""
    out = []
    for p in LANG_PROPS:
        for d in vlib.open_devs(p):
            if d in DEVS and d not in out:
                out.append(d)
    return out


def run_profile(ctx, binary, profile, lo, n, opt="on", extra=None, check_stamps=True, what="metrics", year=False):
    """Generate seeds lo..lo+n-1, replay, compare with the ideal semantics; mismatches are re-checked with the
    property's open deviations switched on (findings protocol).  Returns number of cases compared."""
    cases = generate(ctx, profile, lo, lo + n - 1, year=year)
    if len(cases) != n:
        raise vlib.InfraError("TLC emitted %d cases, expected %d" % (len(cases), n))
    by = replay(ctx, binary, cases, opt, extra)
    suspects = {}
    seenf = ctx.cov.setdefault("features", [])
    nt = 0
    for c in cases:
        rec = by[c["seed"]]
        mm = langlib.check_matches(c, rec)
        if mm:
            raise vlib.InfraError("pattern abstraction disagrees with Go regexp (model/harness bug, not a verdict): %s" % mm[:3])
        out, nl, trunc = langlib.compare_case(c, rec, check_stamps)
        ctx.cov["evaluations"] += nl
        ctx.cov["traces_validated_against_impl"] += len(rec["runs"])
        if nontrivial(c):
            nt += 1
        for f in features(c):
            if f not in seenf:
                seenf.append(f)
        if out:
            suspects[c["seed"]] = (c, out)
    ctx.cov["distinct_nontrivial"] += nt
    if cases:
        c = cases[len(cases) // 2]
        ctx.sample({"seed": c["seed"], "profile": profile, "source": by[c["seed"]]["runs"][0]["src"],
                    "lines": [" ".join("".join(t) for t in l["toks"]) for l in c["lines"]],
                    "expected_after_last_line": c["exp"][-1] if c["exp"] else None}, limit=3)
    if suspects:
        explain(ctx, binary, profile, suspects, opt, extra, check_stamps, year)
    return len(cases)


def explain(ctx, binary, profile, suspects, opt, extra, check_stamps, year=False):
    """DESIGN 4.4 step 3: a mismatch against the corrected spec is re-checked with the open deviations on."""
    devs = lang_open_devs()
    own = set(vlib.open_devs(ctx.prop))
    explained = {}
    if devs:
        dcases = generate(ctx, profile, seedset=sorted(suspects), devs=devs, year=year)
        by = replay(ctx, binary, dcases, opt, extra)
        for c in dcases:
            out, _, _ = langlib.compare_case(c, by[c["seed"]], check_stamps)
            if not out:
                explained[c["seed"]] = True
    ctx.cov["explained_by_open_findings"] = ctx.cov.get("explained_by_open_findings", 0) + len(explained)
    for seed in sorted(suspects):
        c, out = suspects[seed]
        if seed in explained or ctx.enough():
            continue
        # confirm from a clean start (fresh process, this single case)
        again = replay(ctx, binary, [c], opt, extra)
        out2, _, _ = langlib.compare_case(c, again[seed], check_stamps)
        if out2:
            ctx.violation({"profile": profile, "seed": seed, "generator": "spec/MtailGen.tla GenCase(seed)",
                           "source": again[seed]["runs"][0]["src"],
                           "lines": [" ".join("".join(t) for t in l["toks"]) for l in c["lines"]],
                           "mismatches": out2[:6], "opt": opt, "extra": extra, "year": year},
                          "seed %d: %s" % (seed, out2[0][:300]))
    if explained:
        ctx.cov["explained_by_findings_of"] = devs
        for d in devs:
            if d not in own:
                continue                      # filed (and reported) under another language property
            if any(("%s:" % d) in k for k in ctx.known):
                continue                      # already reported through its witness
            f = vlib.open_finding(ctx.prop, d)
            ctx.known_finding(d, "%s [%d generated cases differ from the reference semantics and are explained by the open deviations %s]"
                              % (f["what"], len(explained), ",".join(devs)))


def run_witnesses(ctx, binary):
    """Re-executes the concrete witness of every OPEN finding of this property that carries literal source text.
    The witness states what the reference semantics requires (`reference`); if the real code still departs from it
    the KNOWN-FINDING line is printed, otherwise nothing (a repaired defect is simply no longer reported)."""
    n = 0
    for f in vlib.load_findings(ctx.prop):
        w = f.get("witness") or {}
        if f["status"] != "open" or "source" not in w:
            continue
        n += 1
        recs = vlib.run_harness(ctx, binary, args=["-opt", "both"], cases=[{"seed": n, "src": w["source"], "rawlines": w["lines"]}])
        rec = [r for r in recs if "runs" in r][0]
        ref = w["reference"]
        departs = []
        for run in rec["runs"]:
            if not run["opt"] and not ref.get("also_unoptimised", True):
                continue
            if run["accepted"] != ref.get("accepted", True):
                departs.append("compiler %s the program: %s" % ("accepted" if run["accepted"] else "rejected", (run.get("errors") or "")[:200]))
                continue
            if not run["accepted"]:
                continue
            last = run["lines"][-1]
            if "err" in ref and [l["err"] for l in run["lines"]] != ref["err"]:
                departs.append("runtime error flags %s, reference %s" % ([l["err"] for l in run["lines"]], ref["err"]))
            for name, want in ref.get("final", {}).items():
                m = [x for x in last["metrics"] if x["name"] == name]
                got = [[lv["l"] or [], lv["i"] if m[0]["type"] == "Int" else (lv["f"] if m[0]["type"] == "Float" else lv["s"])] for lv in (m[0]["lvs"] or [])] if m else None
                if got != want:
                    departs.append("%s = %s, reference %s" % (name, got, want))
        if departs:
            ctx.known_finding(f["deviation"], "%s; witness %r on lines %s: %s" % (f["what"], w["source"], w["lines"], departs[0]))


def compare_fresh(rec):
    """C05 literally: the line's effect on the long-running VM (a) equals its effect on a fresh copy with the same
    metric values (b).  Returns mismatch strings."""
    bad = []
    for run in rec["runs"]:
        if run.get("fresherr"):
            raise vlib.InfraError("fresh-copy driver failed: %s" % run["fresherr"])
        for i, p in enumerate(run.get("fresh") or []):
            a, b = p["a"], p["b"]
            if a["err"] != b["err"]:
                bad.append("line %d: runtime error %s on the running VM, %s on the fresh copy (%s)" % (
                    i + 1, a["err"], b["err"], (a.get("errmsg") or b.get("errmsg") or "").split("\n")[0][:160]))
            for ma, mb in zip(a["metrics"], b["metrics"]):
                la, lb = ma["lvs"] or [], mb["lvs"] or []
                if [(x["l"], x["i"], x["fs"], x["s"], x["e"]) for x in la] != [(x["l"], x["i"], x["fs"], x["s"], x["e"]) for x in lb]:
                    bad.append("line %d: metric %s: running VM %s, fresh copy %s" % (
                        i + 1, ma["name"], [(x["l"], x["i"], x["fs"], x["s"]) for x in la], [(x["l"], x["i"], x["fs"], x["s"]) for x in lb]))
                    continue
                for x, y in zip(la, lb):
                    xa = a["t0"] <= x["t"] <= a["t1"]
                    yb = b["t0"] <= y["t"] <= b["t1"]
                    if xa != yb or (not xa and x["t"] != y["t"]):
                        bad.append("line %d: metric %s%s: timestamp %d on the running VM, %d on the fresh copy" % (i + 1, ma["name"], x["l"], x["t"], y["t"]))
            if bad:
                return bad
    return bad
