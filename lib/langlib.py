"""Comparison of the MtailLang.tla reference semantics with what the real compiler+VM did.

A case (emitted by MtailGen.tla) carries prog, lines, exp[i] = {m: store, err, ovf} after line i, and mt
(the model's pattern matching results).  The harness record carries runs[] (render mode x optimiser), each
with the projected metrics after every line.  compare_case returns a list of mismatch descriptions.
"""
import math


def go_g(n, d):
    """Go's fmt %g of the float n/d (shortest representation that round-trips)."""
    x = n / d
    if x == 0:
        return "0"
    r = repr(float(x))
    mant, exp = r, 0
    # python switches to exponent notation at 1e16 / 1e-4 as well; normalise through decimal digits
    from decimal import Decimal
    dec = Decimal(r)
    sign, digits, e10 = dec.as_tuple()
    digs = "".join(map(str, digits)).rstrip("0") or "0"
    e10 += len("".join(map(str, digits))) - 1       # exponent of the first digit
    neg = "-" if sign else ""
    if e10 < -4 or e10 >= 21:
        m = digs[0] + ("." + digs[1:] if len(digs) > 1 else "")
        return "%s%se%s%02d" % (neg, m, "-" if e10 < 0 else "+", abs(e10))
    if e10 >= len(digs) - 1:
        return neg + digs + "0" * (e10 - len(digs) + 1)
    if e10 >= 0:
        return neg + digs[:e10 + 1] + "." + digs[e10 + 1:]
    return neg + "0." + "0" * (-e10 - 1) + digs


def render_str(chars):
    out = []
    for c in chars:
        if len(c) > 1 and c.startswith("~"):
            if c == "~bad":
                return None
            n, d = c[1:].split("/")
            out.append(go_g(int(n), int(d)))
        else:
            out.append(c)
    return "".join(out)


TYNAME = {"int": "Int", "float": "Float", "string": "String"}
KINDNAME = {"counter": "Counter", "gauge": "Gauge", "text": "Text", "timer": "Timer", "histogram": "Histogram"}


def _val_ok(ty, ev, lv, timetab, brackets):
    k = ev["k"]
    if ty == "int":
        if k == "i":
            return lv["i"] == ev["v"], "int %d" % ev["v"]
        if k == "t":
            want = timetab.get(ev["id"])
            return want is not None and lv["i"] == want // 10**9, "instant %s=%s" % (ev["id"], want)
        if k == "now":
            t0, t1 = brackets[ev["i"] - 1]
            return t0 // 10**9 <= lv["i"] <= t1 // 10**9, "now(line %d)" % ev["i"]
        return False, "model value kind %s in int metric" % k
    if ty == "float":
        if k == "f":
            want = ev["n"] / ev["d"]
            got = lv["f"]
            return (got == want) or (want != 0 and abs(got - want) <= 1e-12 * abs(want)), "float %s/%s" % (ev["n"], ev["d"])
        return False, "model value kind %s in float metric" % k
    if k == "s":
        want = render_str(ev["v"])
        return want is not None and lv["s"] == want, "string %r" % want
    return False, "model value kind %s in string metric" % k


def _stamp_ok(et, lv, timetab, brackets):
    k = et["k"]
    t = lv["t"]
    if k == "i":
        return t == et["v"] * 10**9, "settime %d" % et["v"]
    if k == "t":
        return t == timetab.get(et["id"]), "instant %s" % et["id"]
    if k == "now":
        t0, t1 = brackets[et["i"] - 1]
        return t0 <= t <= t1, "now(line %d)" % et["i"]
    return False, "stamp kind %s" % k


def compare_line(decls, exp, lr, timetab, brackets, check_stamps=True):
    """exp = {m, err, ovf}; lr = harness LineResult. Returns list of mismatch strings."""
    bad = []
    if lr.get("panic"):
        bad.append("VM panicked: %s" % lr["panic"])
        return bad
    if bool(exp["err"]) != bool(lr["err"]):
        bad.append("runtime error flag: model %s, real %s (%s)" % (exp["err"], lr["err"], lr.get("errmsg", "")[:200]))
    real = {m["name"]: m for m in lr["metrics"]}
    for d in decls:
        name = d["name"]
        if d["kind"] == "histogram":
            continue                      # only there to fault (++ on a histogram); its buckets are C21's business
        if name not in real:
            bad.append("metric %s missing from the VM" % name)
            continue
        rm = real[name]
        if rm["type"] != TYNAME[d["ty"]]:
            bad.append("metric %s: inferred type %s, typed grammar says %s" % (name, rm["type"], TYNAME[d["ty"]]))
            continue
        if rm["kind"] != KINDNAME[d["kind"]] or rm["keys"] != d["keys"] or bool(rm["hidden"]) != bool(d["hidden"]):
            bad.append("metric %s: declaration attributes differ: %s" % (name, {k: rm[k] for k in ("kind", "keys", "hidden")}))
        elvs = exp["m"].get(name, [])
        rlvs = rm["lvs"] or []
        if len(elvs) != len(rlvs):
            bad.append("metric %s: %d label sets, model %d: real %s model %s" % (
                name, len(rlvs), len(elvs), [x["l"] for x in rlvs], [[render_str(l) for l in x["l"]] for x in elvs]))
            continue
        for j, (e, r) in enumerate(zip(elvs, rlvs)):
            want_l = [render_str(l) for l in e["l"]]
            if (r["l"] or []) != want_l:
                bad.append("metric %s label set %d: real %s model %s" % (name, j, r["l"], want_l))
                continue
            ok, what = _val_ok(d["ty"], e["v"], r, timetab, brackets)
            if not ok:
                bad.append("metric %s%s: value real i=%s f=%s s=%r, model %s" % (name, want_l, r["i"], r["fs"] or r["f"], r["s"], what))
            if check_stamps:
                ok, what = _stamp_ok(e["t"], r, timetab, brackets)
                if not ok:
                    bad.append("metric %s%s: timestamp %d, model %s" % (name, want_l, r["t"], what))
            if r["e"] != e["e"] * 3600 * 10**9:
                bad.append("metric %s%s: expiry %d ns, model %dh" % (name, want_l, r["e"], e["e"]))
    return bad


def check_matches(case, rec):
    """The abstraction map for patterns: Go regexp and the model's Match must agree on every (pattern, line)."""
    bad = []
    for m in rec.get("matches", []):
        mm = case["mt"][m["p"] - 1][m["l"] - 1]
        want_caps = ["".join(t) for t in mm["caps"]] if mm["ok"] else []
        if bool(mm["ok"]) != bool(m["ok"]) or (m["ok"] and (m["caps"] or []) != want_caps):
            bad.append("pattern %d line %d: regexp %s %s, model %s %s" % (m["p"], m["l"], m["ok"], m["caps"], mm["ok"], want_caps))
    return bad


def compare_case(case, rec, check_stamps=True):
    """Returns (mismatches, lines_compared, truncated_by_overflow)."""
    out = []
    n = 0
    trunc = False
    decls = case["prog"]["decls"]
    for run in rec["runs"]:
        tag = "[%s%s]" % (run["mode"], "" if run["opt"] else ",noopt")
        if not run["accepted"]:
            out.append("%s compiler rejected a well-typed program: %s%s" % (tag, (run.get("errors") or "")[:400], run.get("panic") or ""))
            continue
        brackets = [(l["t0"], l["t1"]) for l in run["lines"]]
        for i, exp in enumerate(case["exp"]):
            if exp["ovf"]:
                trunc = True
                break
            n += 1
            for b in compare_line(decls, exp, run["lines"][i], rec["timetab"], brackets, check_stamps):
                out.append("%s line %d %r: %s" % (tag, i + 1, " ".join("".join(t) for t in case["lines"][i]["toks"]), b))
            if out:
                break
    return out, n, trunc
